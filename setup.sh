#!/bin/sh
# Offline set-up: overlay venv on top of /venv (which has the editable install of /repo) + CrossHair/z3/cvc5 wheels.
set -e
cd "$(dirname "$0")"
V=.venv
if [ -x "$V/bin/python" ] && "$V/bin/python" -c 'import crosshair, z3, jsonschema, cvc5' 2>/dev/null; then
  exit 0
fi
rm -rf "$V"
/venv/bin/python -m venv "$V"
SP=$("$V/bin/python" -c 'import sysconfig; print(sysconfig.get_paths()["purelib"])')
printf '%s\n' "import site; site.addsitedir('/venv/lib/python3.12/site-packages')" > "$SP/_verif_overlay.pth"
PIP_NO_INDEX=1 "$V/bin/pip" install --quiet --no-index --find-links /opt/veriftools/wheels crosshair-tool z3-solver cvc5 >/dev/null
"$V/bin/python" -c 'import crosshair, z3, jsonschema, cvc5; print("setup ok: crosshair", crosshair.__version__, "z3", z3.get_version_string(), "jsonschema from", jsonschema.__file__)'
