#!/usr/bin/env python3
"""Regenerates /verif/MANIFEST.json from the table below (kept here so the manifest stays valid and consistent)."""
import json
import os

ROOT = os.path.dirname(os.path.dirname(os.path.abspath(__file__)))

E1 = "bounded symbolic execution of the real byte-code of /repo/jsonschema by CrossHair 0.0.110 (z3): symbolic instances and schema leaves, "
TB = ("Trusted base: CrossHair's models of str/list/dict/int and of `re` on the listed regex subset; message formatting is stubbed by an opaque "
      "placeholder; strings used as native mapping keys (reference strings, keyword/type/format names, schema object keys) are concrete "
      "catalogue members; every refutation and every reachability witness is replayed on the unmodified code in a plain interpreter. "
      "Bounds are repeated in the evidence file.")

CHECKS = {
    "C01": dict(ref="3/C01", technique="CrossHair symbolic execution, differential against an independent specification interpreter (refmodel)",
                text=E1 + "verdict of DraftNValidator(schema).is_valid(x) compared on every feasible path with an independent specification "
                "interpreter that is gated on the official test suite; all keywords alone x instance kinds, sibling groups, nested applicators, keyword pairs.",
                note=TB + " Strings <= 2 code points, containers <= 2 entries, nesting <= 2, unbounded integers; floats, $ref, format are other properties."),
    "C09": dict(ref="3/C09, 2.2", category="other",
                technique="AST-to-SMT translation of the numeric keyword functions (numkern), cvc5/z3 queries against an exact field-level specification; CrossHair for unbounded ints",
                text="SMT queries over an encoding regenerated from the current source of minimum/maximum/exclusive*/multipleOf/divisibleBy in all four "
                "draft tables: code verdict == exact arithmetic and no exception, for every operand of each kind pair (int64, |i|>=2**1024, every finite binary64); "
                "plus CrossHair conditions on unbounded integers.",
                note="Trusted: numkern's model of Python's int/float operators (validated on every run against the interpreter on ~13k concrete operand pairs), "
                "Fraction modelled as exact. Outside the bound: mixed int/float with 2**63 <= |i| < 2**1024. unknown/timeout is reported as inconclusive."),
    "C14": dict(ref="3/C14", technique="CrossHair symbolic execution of RefResolver.resolve_fragment against an independent RFC 6901 decoder",
                text=E1 + "symbolic documents with symbolic keys, symbolic raw fragments compared with an independent character-level RFC 6901 decoder, "
                "key round-trips through the harness's own encoder, array-index tokens from a hostile catalogue.",
                note=TB + " Keys <= 2 code points (3 thorough), raw fragments <= 5 (6) characters, '%' only over the alphabet {% ~ / 0 1 2 5 a}."),
}

NOT_YET = "check not built yet in this round (design in DESIGN.md section 3); no claim is made"

NA = {}


def main():
    props = [json.loads(l) for l in open(os.path.join(ROOT, "properties.jsonl"))]
    checks = []
    na = []
    for p in props:
        pid = p["id"]
        c = CHECKS.get(pid)
        have = os.path.exists(os.path.join(ROOT, "vf", "props", pid.lower() + ".py"))
        if c and have:
            checks.append({
                "property_id": pid,
                "quick_cmd": "./check %s --tier quick" % pid,
                "thorough_cmd": "./check %s --tier thorough" % pid,
                "evidence_file": "evidence/%s.json" % pid,
                "replay_cmd_template": "./check replay {path}",
                "engine": "E2 numkern + E1 CrossHair" if pid == "C09" else "E1 CrossHair",
                "level_claimed": {"category": c.get("category", "model_checking"), "text": c["text"], "design_ref": "DESIGN.md " + c["ref"]},
                "level_note": c["note"],
                "technique": c["technique"],
            })
        else:
            na.append({"property_id": pid, "reason": NA.get(pid, NOT_YET)})
    m = {
        "version": 1,
        "setup_cmd": "./setup.sh",
        "hooks": {
            "guard": "JSONSCHEMA_VERIF",
            "enable": "no hooks are needed: both engines execute or read the unmodified source of /repo (the guard name is reserved and unused)",
            "baseline_off_cmd": "cd /repo && /venv/bin/python -m pytest -ra -q -p no:cacheprovider --timeout=900 --continue-on-collection-errors",
            "source_commits": [],
            "add_only": True,
        },
        "engines": [
            {"name": "E1", "path": "vf/chx.py", "kind_free_text": "CrossHair 0.0.110 + z3 5.1.0: symbolic execution of /repo/jsonschema byte-code, per-path SMT",
             "serves_properties": [c["property_id"] for c in checks]},
            {"name": "E2", "path": "vf/numkern.py", "kind_free_text": "numkern: Python AST -> SMT-LIB (QF_BVFP/LIA), cvc5 1.0.3 binary + z3",
             "serves_properties": [c["property_id"] for c in checks if c["property_id"] in ("C09", "C03", "C08")]},
        ],
        "checks": checks,
        "not_applicable": na,
        "notes": "exit 0 = all obligations decisive and no unlisted violation; 1 = VIOLATION (replayed on the real code); 2 = INCONCLUSIVE "
                 "(timeout/unknown/non-replaying model; never a claim). Known findings and repairs: KNOWN_FINDINGS.txt.",
    }
    json.dump(m, open(os.path.join(ROOT, "MANIFEST.json"), "w"), indent=1)
    print("MANIFEST.json: %d checks, %d not_applicable" % (len(checks), len(na)))


if __name__ == "__main__":
    main()
