#!/usr/bin/env python3
"""Regenerates /verif/MANIFEST.json from the table below (kept here so the manifest stays valid and consistent)."""
import json
import os

ROOT = os.path.dirname(os.path.dirname(os.path.abspath(__file__)))

E1 = "bounded symbolic execution of the real byte-code of /repo/jsonschema by CrossHair 0.0.110 (z3): symbolic instances and schema leaves, "
TB = ("Trusted base: CrossHair's models of str/list/dict/int and of `re` on the listed regex subset; message formatting is stubbed by an opaque "
      "placeholder; strings used as native mapping keys (reference strings, keyword/type/format names, schema object keys) are concrete "
      "catalogue members; every refutation and every reachability witness is replayed on the unmodified code in a plain interpreter. "
      "Bounds are repeated in the evidence file.")

def e1(ref, technique, text, note_extra=""):
    return dict(ref=ref, technique=technique, text=E1 + text, note=TB + (" " + note_extra if note_extra else ""))


CHECKS = {
    "C01": e1("3/C01", "CrossHair symbolic execution, differential against an independent specification interpreter (refmodel)",
              "verdict of DraftNValidator(schema).is_valid(x) compared on every feasible path with an independent specification "
              "interpreter that is gated on the official test suite; all keywords alone x instance kinds, sibling groups, nested applicators, keyword pairs.",
              "Strings <= 2 code points, containers <= 2 entries, nesting <= 2, unbounded integers; floats, $ref, format are other properties."),
    "C02": e1("3/C02", "CrossHair symbolic execution, implementation against itself on the reference-free twin built by construction",
              "a reference-using schema and the twin with the designated schema written in place (built by the harness with its own pointer/URI "
              "encoder; decoy definitions at every location a wrong decoding or base would reach) must give the same verdict and the same "
              "multiset of (instance path, keyword); hostile names, all placements, root/remote/handler documents, nested ids, chains, recursion.",
              "Reference strings, names, ids and documents are a concrete catalogue (native hashing); instance and target leaves are symbolic. "
              "urljoin is trusted. Embedded-id targets (issue 371) excluded as the property says."),
    "C03": e1("3/C03", "CrossHair symbolic execution with the real check_schema as symbolic precondition; numkern SMT queries for numeric raise-freedom",
              "candidate schemas {K: v} with symbolic keyword values of every JSON kind (and sibling pairs) pass through the real check_schema "
              "executed symbolically; on accepting paths every entry point runs on a symbolic instance and may raise only the documented "
              "exceptions; E2 queries decide that no finite operand makes a numeric keyword raise.",
              "$ref, id, regex, format and Draft 3 type names are catalogue members chosen by symbolic index (the property's own preconditions)."),
    "C04": e1("3/C04", "CrossHair symbolic execution of the four entry points on the same symbolic input",
              "is_valid, iter_errors, validate() and jsonschema.validate compared on one symbolic (schema leaves, instance) per path, error identity "
              "by (keyword, message placeholder, paths, context recursively); invalid schemas: SchemaError fields equal the first metaschema "
              "violation and a poisoned instance is never touched.", "best_match's choice is constrained only as the property states."),
    "C05": e1("3/C05", "CrossHair symbolic execution: keyword-restriction self-comparison plus violation counts of an independent interpreter",
              "errors of a schema object = multiset union over its keywords of the errors of the schema restricted to that keyword and the "
              "siblings it consults; and the multiset of (keyword, path) equals an independent interpreter's list of violations.",
              "Message text compared as placeholders."),
    "C06": e1("3/C06", "CrossHair symbolic execution with an independent path/pointer navigator",
              "every error in the context closure: absolute path reaches error.instance; keyword/value/subschema consistent; absolute schema "
              "path (hopping $ref with the harness's resolver) reaches the value; parent arithmetic; json_path rendering.",
              "Documented exceptions (Draft 3 required, propertyNames, false schema) are checked in their stated form."),
    "C07": e1("3/C07", "CrossHair symbolic execution of operation histories on one validator (inductive step + short histories)",
              "symbolic operation codes, instances over every reference kind, iterator abandonment, handler fault schedule; after each operation "
              "the scope stack is [base] and instance/schema/store documents are unchanged; the next result equals a fresh validator's.",
              "Histories <= 2 operations + probe (3 thorough); re-entrancy excluded as the property says."),
    "C08": e1("3/C08", "CrossHair symbolic execution against a recursive definition of JSON equality",
              "const / enum / uniqueItems on concrete shapes (depth <= 3) with symbolic leaves and on symbolic scalars/arrays, each tied to the "
              "same 20-line oracle (so the three keywords agree); duplicates adjacent or separated; three-element arrays.",
              "Floats are outside E1 (int==float makes CrossHair enumerate integers); leaves are bool|int or null|bool|int|str."),
    "C09": dict(ref="3/C09, 2.2", category="other",
                technique="AST-to-SMT translation of the numeric keyword functions (numkern), cvc5/z3 queries against an exact field-level specification; CrossHair for unbounded ints",
                text="SMT queries over an encoding regenerated from the current source of minimum/maximum/exclusive*/multipleOf/divisibleBy in all four "
                "draft tables: code verdict == exact arithmetic and no exception, for every operand of each kind pair (int64, |i|>=2**1024, every finite binary64); "
                "plus CrossHair conditions on unbounded integers.",
                note="Trusted: numkern's model of Python's int/float operators (validated on every run against the interpreter on ~13k concrete operand pairs), "
                "Fraction modelled as exact. Outside the bound: mixed int/float with 2**63 <= |i| < 2**1024; the verdict of float % int (fp.rem: unknown in both solvers). unknown/timeout is inconclusive."),
    "C10": e1("3/C10", "CrossHair symbolic execution, implementation against itself with/without the foreign keyword",
              "a keyword outside the draft's vocabulary (from a specification table in the harness) with a symbolic value is inserted at the "
              "root or a subschema position; error signatures must not change; any keyword next to $ref; id vs $id per draft.",
              "Keyword names are concrete (VALIDATORS.get hashes them)."),
    "C11": e1("3/C11", "CrossHair symbolic execution, differential against refmodel applied to the bundled metaschema file",
              "check_schema on {K: v} for every property name of the bundled metaschema (read at run time) and every value kind, at the root "
              "and in subschema positions, non-object candidates, the metaschema's own dependencies; accepted <=> the independent evaluator "
              "accepts; only SchemaError is raised; each metaschema accepts itself."),
    "C12": e1("3/C12", "CrossHair symbolic execution with symbolic checker behaviour",
              "custom check functions whose behaviour is a symbolic selector; every registered built-in checker on symbolic non-string instances; "
              "no checker = schema without format; formats=subset; the draft checker objects."),
    "C13": e1("3/C13", "CrossHair symbolic execution of ipaddress-based checkers against a written grammar; contract stubs for C-implemented libraries",
              "ipv4/ip-address on every string up to the length bound (split by length and dot mask) against a 12-line grammar; email; for date, "
              "time, regex, ipv6, idn-hostname only the wrapper layer under nondeterministic contract stubs.",
              "PARTIAL: the accepted languages of date/time/regex/ipv6/idn-hostname and undocumented library exceptions cannot be decided by this engine (C code)."),
    "C14": e1("3/C14", "CrossHair symbolic execution of RefResolver.resolve_fragment against an independent RFC 6901 decoder",
              "symbolic documents with symbolic keys, symbolic raw fragments compared with an independent character-level decoder, key "
              "round-trips through the harness's own encoder, array-index tokens from a hostile catalogue.",
              "Keys <= 2 code points (3 thorough), raw fragments <= 4 (6) characters, '%' only over the alphabet {% ~ / 0 1 2 5 a}."),
    "C15": e1("3/C15", "CrossHair symbolic execution of retrieval histories with counting stubs",
              "symbolic sequences of validations/direct resolutions, cache_remote and handler fault schedule; verdicts equal the oracle in every "
              "cache configuration; at most one successful fetch per document with caching on; store unchanged with caching off; handler "
              "failures surface as RefResolutionError; metaschema and store references never fetch; urlopen stub never reached."),
    "C16": e1("3/C16", "CrossHair symbolic execution of derivation histories with behavioural probes",
              "symbolic sequences of extend/create/redefine/remove/types=/checks/cls_checks/formats=; after every step every earlier object "
              "answers its recorded probes unchanged; extend() without changes equals its parent (incl. where it looks for ids)."),
    "C17": e1("3/C17", "CrossHair symbolic execution of ErrorTree construction under permuted arrival orders",
              "iter_errors on symbolic instances, the error list permuted by Lehmer codes, then the tree is compared with what the list implies "
              "(nodes, children, membership, totals, empty subtrees).",
              "Object keys range over a concrete catalogue because ErrorTree hashes path elements natively. Known finding F9 excluded by its input class."),
    "C18": e1("3/C18", "CrossHair symbolic execution of iterator interleavings with symbolic schedules",
              "a symbolic schedule interleaves next() on error iterators of validators built from schema pairs colliding on every shareable "
              "cache key; each yields exactly what it yields alone.",
              "PARTIAL: preemptive threads are outside (single-threaded engine)."),
    "C19": e1("3/C19", "CrossHair symbolic execution of cli.run over a symbolic file system",
              "open()/stdin replaced by fakes driven by symbolic per-file states; exit status, diagnostics count, success headers compared with "
              "the state vector and the library's error count; plain/pretty/custom format/explicit validator/base-uri/stdin.",
              "The state vectors are small discrete values: close to exhaustive enumeration up to the length bound. OS process boundary outside."),
    "C20": e1("3/C20", "CrossHair symbolic execution of validator_for / validate / cli over $schema spellings and registration histories",
              "spellings generated from the live registry; disagreement templates with symbolic leaves/instances; behaviour after dispatch equals "
              "the selected class; explicit class wins; later registrations selectable without disturbing earlier ones; CLI selects the same class.",
              "$schema strings are concrete (URIDict hashes them)."),
}

# properties whose quick check has been run green on the unchanged tree (others are listed as not yet claimed)
READY = {"C%02d" % i for i in range(1, 21)}
QUICK_WALL = ("C01 279, C02 150, C03 246, C04 335, C05 293, C06 201, C07 288, C08 304, C09 108, C10 223, C11 180, C12 29, C13 86, C14 286, "
              "C15 148, C16 217, C17 233, C18 191, C19 87, C20 67")
THOROUGH_WALL = ("run end to end green in the build round (wall s): C02 628, C06 978, C09 463, C12 30, C13 192, C14 463, C15 1417, C16 896, C17 1561, C19 962, C20 63, C18 692, C07 523, C11 384, C01 353, C10 642, C03 361, C08 338, C05 487, C04 810; "
                 "C01/C03/C04/C05/C08/C10/C11 thorough = union of the quick samples over three seeds (larger enumeration behind VERIF_DEEP=1), "
                 "C07/C18 thorough = the quick factories over more drafts/collision kinds; all twenty thorough commands were run end to end; see DESIGN.md 9.7")
NOT_YET = "check not built yet in this round (design in DESIGN.md section 3); no claim is made"

NA = {}


def main():
    props = [json.loads(l) for l in open(os.path.join(ROOT, "properties.jsonl"))]
    checks = []
    na = []
    for p in props:
        pid = p["id"]
        c = CHECKS.get(pid)
        have = os.path.exists(os.path.join(ROOT, "vf", "props", pid.lower() + ".py"))
        if c and have and pid in READY:
            checks.append({
                "property_id": pid,
                "quick_cmd": "./check %s --tier quick" % pid,
                "thorough_cmd": "./check %s --tier thorough" % pid,
                "evidence_file": "evidence/%s.json" % pid,
                "replay_cmd_template": "./check replay {path}",
                "engine": "E2 numkern + E1 CrossHair" if pid == "C09" else "E1 CrossHair",
                "level_claimed": {"category": c.get("category", "model_checking"), "text": c["text"], "design_ref": "DESIGN.md " + c["ref"]},
                "level_note": c["note"],
                "technique": c["technique"],
            })
        else:
            na.append({"property_id": pid, "reason": NA.get(pid, NOT_YET)})
    m = {
        "version": 1,
        "setup_cmd": "./setup.sh",
        "hooks": {
            "guard": "JSONSCHEMA_VERIF",
            "enable": "no hooks are needed: both engines execute or read the unmodified source of /repo (the guard name is reserved and unused)",
            "baseline_off_cmd": "cd /repo && /venv/bin/python -m pytest -ra -q -p no:cacheprovider --timeout=900 --continue-on-collection-errors",
            "source_commits": [],
            "add_only": True,
        },
        "engines": [
            {"name": "E1", "path": "vf/chx.py", "kind_free_text": "CrossHair 0.0.110 + z3 5.1.0: symbolic execution of /repo/jsonschema byte-code, per-path SMT",
             "serves_properties": [c["property_id"] for c in checks]},
            {"name": "E2", "path": "vf/numkern.py", "kind_free_text": "numkern: Python AST -> SMT-LIB (QF_BVFP/LIA), cvc5 1.0.3 binary + z3",
             "serves_properties": [c["property_id"] for c in checks if c["property_id"] in ("C09", "C03")]},
        ],
        "checks": checks,
        "not_applicable": na,
        "notes": "exit 0 = all obligations decisive and no unlisted violation; 1 = VIOLATION (replayed on the real code); 2 = INCONCLUSIVE "
                 "(timeout/unknown/non-replaying model; never a claim). Known findings and repairs: KNOWN_FINDINGS.txt. "
                 "Quick tier, wall seconds on the idle 16-core sandbox (seed 0): " + QUICK_WALL + ". Thorough tier: " + THOROUGH_WALL,
    }
    json.dump(m, open(os.path.join(ROOT, "MANIFEST.json"), "w"), indent=1)
    print("MANIFEST.json: %d checks, %d not_applicable" % (len(checks), len(na)))


if __name__ == "__main__":
    main()
