#!/bin/sh
# usage: seedverify.sh <dir with patch_X.diff demo_X.py> <X>   -- confirm a seeded change in a scratch worktree (never /repo's working tree)
# prints: applies / tests / demo-with / demo-without
D=$1; X=$2
W=/tmp/calib_$$
git -C /repo worktree add -q --detach $W HEAD || exit 2
cd $W
if ! git apply $D/patch_$X.diff 2>/dev/null; then echo "apply=FAIL"; cd /; git -C /repo worktree remove --force $W; exit 1; fi
T=$(PYTHONPATH=$W /venv/bin/python -m pytest -q -p no:cacheprovider -n 6 2>&1 | tail -1)
PYTHONPATH=$W /venv/bin/python $D/demo_$X.py >/dev/null 2>&1; A=$?
git checkout -q -- .
PYTHONPATH=$W /venv/bin/python $D/demo_$X.py >/dev/null 2>&1; B=$?
cd /; git -C /repo worktree remove --force $W
echo "apply=ok tests=[$T] demo_with_patch=$A demo_without=$B"
