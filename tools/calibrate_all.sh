#!/bin/sh
# runs every seeded change against the quick check of its own property (failfast); one at a time; results appended to $1
OUT=${1:-/tmp/calib.log}
shift
LIST=${@:-$(ls /verif/seeded)}
for s in $LIST; do
  pid=$(echo $s | cut -c1-3)
  echo -n "$s: " >> $OUT
  /verif/tools/calibrate.sh /verif/seeded/$s/patch.diff $pid >> $OUT 2>&1
done
echo CALIBDONE >> $OUT
