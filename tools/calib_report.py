#!/usr/bin/env python3
"""Reads calibration logs (tools/calibrate_all.sh output) and records the result in seeded/<id>/meta.json; prints a table."""
import json
import os
import re
import sys

ROOT = os.path.dirname(os.path.dirname(os.path.abspath(__file__)))
rows = {}
for path in sys.argv[1:]:
    for line in open(path, errors="replace"):
        m = re.match(r"^(C\d\d[a-d]): \[(C\d\d) (\d+)s exit=(\d+)\]\s*(.*)$", line.strip())
        if not m:
            continue
        sid, chk, secs, rc, rest = m.groups()
        cond = re.search(r"\(condition (.+?): ", rest)
        rows[sid] = dict(check=chk, seconds=int(secs), exit=int(rc), condition=cond.group(1) if cond else None,
                         outcome={"1": "detected", "0": "missed", "2": "inconclusive"}.get(rc, "error"))
for sid, r in sorted(rows.items()):
    mp = os.path.join(ROOT, "seeded", sid, "meta.json")
    if os.path.exists(mp):
        meta = json.load(open(mp))
        meta["detected_by"] = {"check": r["check"] + " (quick tier, --failfast, VERIF_REPO=scratch worktree with the patch)", "outcome": r["outcome"],
                               "first_refuted_condition": r["condition"], "seconds": r["seconds"]}
        json.dump(meta, open(mp, "w"), indent=1)
    print("| %s | %s | %s | %s | %ss |" % (sid, r["check"], r["outcome"], r["condition"] or "", r["seconds"]))
