"""debug helper: analyse one condition in-process.  usage: tools/one.py <prop> <cond id> [timeout] [tier]"""
import sys, json, os, importlib
sys.path.insert(0, os.path.dirname(os.path.dirname(os.path.abspath(__file__))))
from vf import worker
prop, cid = sys.argv[1], sys.argv[2]
to = float(sys.argv[3]) if len(sys.argv) > 3 else 60
mod = importlib.import_module("vf.props." + prop)
cs = [c for c in mod.conditions(sys.argv[4] if len(sys.argv) > 4 else "quick", 0, []) if c["id"] == cid]
os.environ.setdefault("VF_WORKDIR", "/verif/.work/one")
mode = os.environ.get("MODE", "prove")
r = worker.analyse(cs[0], mode=mode, want=os.environ.get("WANT"), timeout=to)
print({k: r[k] for k in ("state", "paths", "queries", "solver_s", "wall_s", "tags", "cex")}, r["messages"])
