#!/bin/sh
# usage: calibrate.sh <patch file> <property id> [more property ids...]
# applies a seeded change to a scratch worktree of /repo's HEAD (never to /repo itself), points the quick checks at it
# (VERIF_REPO) with --failfast, and removes the worktree again.
P=$1; shift
W=/tmp/calibw_$$
git -C /repo worktree add -q --detach $W HEAD || exit 2
( cd $W && git apply "$P" ) || { echo "patch does not apply"; git -C /repo worktree remove --force $W; exit 2; }
for ID in "$@"; do
  S=$(date +%s)
  OUT=$(cd /verif && VERIF_REPO=$W VERIF_WORKTAG=calib$$ ./check $ID --tier quick --failfast 2>&1 | grep -a -E "^VIOLATION|^INCONCLUSIVE|^C[0-9]+:" | head -3 | cut -c1-300)
  E=$(date +%s)
  echo "[$ID $(($E-$S))s] $OUT"
done
git -C /repo worktree remove --force $W
