#!/bin/sh
# usage: calibrate.sh <patch file> <property id> [more property ids...]
# applies a seeded change to a scratch worktree of /repo's HEAD (never to /repo itself), points the quick checks at it
# (VERIF_REPO) with --failfast, and removes the worktree again.
P=$1; shift
W=/tmp/calibw_$$
git -C /repo worktree add -q --detach $W HEAD || exit 2
( cd $W && git apply "$P" ) || { echo "patch does not apply"; git -C /repo worktree remove --force $W; exit 2; }
for ID in "$@"; do
  S=$(date +%s)
  (cd /verif && VERIF_REPO=$W ./check $ID --tier quick --failfast > /tmp/calib_out_$$ 2>&1; echo "exit=$?" >> /tmp/calib_out_$$)
  E=$(date +%s)
  echo "[$ID $(($E-$S))s $(grep -a '^exit=' /tmp/calib_out_$$)] $(grep -a -E '^VIOLATION|^INCONCLUSIVE' /tmp/calib_out_$$ | head -2 | cut -c1-260)"
  rm -f /tmp/calib_out_$$
done
git -C /repo worktree remove --force $W
