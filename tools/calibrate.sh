#!/bin/sh
# usage: calibrate.sh <patch file> <property id> [more property ids...]
# applies a seeded change to /repo, runs the quick checks with --failfast, undoes the change.  One at a time only.
P=$1; shift
cd /repo || exit 2
git diff --quiet || { echo "/repo working tree is not clean"; exit 2; }
git apply "$P" || { echo "patch does not apply"; exit 2; }
for ID in "$@"; do
  S=$(date +%s)
  OUT=$(cd /verif && ./check $ID --tier quick --failfast 2>&1 | grep -a -E "^VIOLATION|^INCONCLUSIVE|^C[0-9]+:" | head -3 | cut -c1-300)
  RC=$?
  E=$(date +%s)
  echo "[$ID $(($E-$S))s] $OUT"
done
git -C /repo checkout -- .
