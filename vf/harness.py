"""Shared, CrossHair-free harness helpers.  Imported both by the symbolic workers and by the plain
replayer, so nothing in here may import crosshair."""
import linecache
import os

# the repository under test: /repo, unless a calibration run points the checks at a scratch copy (tools/calibrate.sh)
REPO = os.environ.get("VERIF_REPO", "/repo")
from typing import Dict, List, Optional, Union


class HarnessError(Exception):
    """The harness itself is wrong or was used outside its assumptions (-> inconclusive, never green)."""


class HarnessEscape(Exception):
    """An exception escaped from the code under test; carries only the concrete type name."""


class Opaque(str):
    """Placeholder for formatted text containing symbolic values (DESIGN 2.1).

    Equal to another placeholder iff template and argument skeleton are equal; any attempt by the code
    under test to look *into* the text is a harness error.
    """
    __slots__ = ("key",)

    def __new__(cls, key):
        o = str.__new__(cls, "<fmt>")
        o.key = key
        return o

    def __eq__(self, other):
        if isinstance(other, Opaque):
            return self.key == other.key
        if isinstance(other, str):
            return False      # a message formatted from concrete values only is real text: never the same message
        raise HarnessError("logic depends on formatted text (==)")

    def __ne__(self, other):
        return not self.__eq__(other)

    def __hash__(self):
        raise HarnessError("formatted text hashed")

    def __contains__(self, x):
        raise HarnessError("formatted text searched")

    def startswith(self, *a):
        raise HarnessError("formatted text inspected")

    endswith = find = index = split = startswith

    def __repr__(self):
        return "<fmt>"

    def __mod__(self, other):
        return Opaque(("%", self.key, id(other)))

    def __add__(self, other):
        return Opaque(("+", self.key, other.key if isinstance(other, Opaque) else other))

    def __radd__(self, other):
        return Opaque(("r+", other, self.key))


def call(f, *a, **k):
    """Call code under test; any ordinary exception becomes a concrete HarnessEscape."""
    try:
        return f(*a, **k)
    except (HarnessError, HarnessEscape):
        raise
    except Exception as e:
        raise HarnessEscape(type(e).__name__)


def outcome(f, *a, allowed=(), **k):
    """('ok', value) or ('raised', type-name) for allowed exception types; others escape."""
    try:
        return ("ok", f(*a, **k))
    except (HarnessError, HarnessEscape):
        raise
    except Exception as e:
        n = type(e).__name__
        if n in allowed:
            return ("raised", n)
        raise HarnessEscape(n)


# ---------------------------------------------------------------------------------------------
# JSON domain (DESIGN 2.4)

Scalar = Union[None, bool, int, str]
KIND_TYPES = {
    "null": type(None),
    "bool": bool,
    "int": int,
    "str": str,
    "scalar": Scalar,
    "arr_int": List[int],
    "arr_str": List[str],
    "arr_bool": List[bool],
    "arr_scalar": List[Scalar],
    "arr_arr_int": List[List[int]],
    "arr_obj_int": List[Dict[str, int]],
    "obj_int": Dict[str, int],
    "obj_str": Dict[str, str],
    "obj_bool": Dict[str, bool],
    "obj_scalar": Dict[str, Scalar],
    "obj_arr_int": Dict[str, List[int]],
    "obj_obj_int": Dict[str, Dict[str, int]],
}
SCALAR_KINDS = ["null", "bool", "int", "str"]
J1_KINDS = SCALAR_KINDS + ["arr_scalar", "obj_scalar"]
J1_SPLIT = SCALAR_KINDS + ["arr_int", "arr_str", "obj_int", "obj_str"]


def small(x, L=2, N=2, N2=None):
    """Size bound of the JSON domain: strings <= L code points, containers <= N entries (nested
    containers <= N2 when given), recursively."""
    M = N if N2 is None else N2
    if isinstance(x, str):
        return len(x) <= L
    if isinstance(x, list):
        if len(x) > N:
            return False
        for i in x:
            if not small(i, L, M, N2):
                return False
        return True
    if isinstance(x, dict):
        if len(x) > N:
            return False
        keys = []
        for k in x:          # never .items() on a symbolic dict in a precondition (measured: 120 paths vs 12)
            if len(k) > L:
                return False
            for q in keys:   # CrossHair's symbolic dict may hand out two keys that are not constrained to differ
                if q == k:
                    return False
            keys.append(k)
            if not small(x[k], L, M, N2):
                return False
        return True
    return True


def pick(catalogue, idx):
    """Symbolic choice among concrete alternatives (keeps the alternatives visible in the path log)."""
    for i, v in enumerate(catalogue):
        if i == idx:
            return v
    raise HarnessError("index outside catalogue")


def kind_of(x):
    if x is None:
        return "null"
    if isinstance(x, bool):
        return "bool"
    if isinstance(x, int):
        return "int"
    if isinstance(x, float):
        return "float"
    if isinstance(x, str):
        return "str"
    if isinstance(x, list):
        return "arr"
    if isinstance(x, dict):
        return "obj"
    return "other"


# ---------------------------------------------------------------------------------------------
# error signatures

def esig(e, with_msg=True):
    """Signature of an error: keyword, message (placeholder under symbolic execution), relative
    instance path, relative schema path, context signatures recursively."""
    return (
        e.validator,
        e.message if with_msg else None,
        list(e.path),
        list(e.schema_path),
        [esig(c, with_msg) for c in e.context],
    )


def multiset_eq(a, b):
    """Multiset equality of two lists of (possibly symbolic) values, by pairwise ==."""
    if len(a) != len(b):
        return False
    rest = list(b)
    for x in a:
        found = -1
        for i, y in enumerate(rest):
            if x == y:
                found = i
                break
        if found < 0:
            return False
        del rest[found]
    return True


# ---------------------------------------------------------------------------------------------
# condition specs

class Spec:
    """A condition: typed symbolic parameters, a precondition (bounds + documented validity), a body
    returning (ok, tag).  `tags` lists the verdict tags the condition is expected to reach (vacuity guard)."""

    def __init__(self, params, pre, body, tags=(), note=""):
        self.params = list(params)
        self.pre = pre
        self.body = body
        self.tags = list(tags)
        self.note = note


TAGS: Dict[str, int] = {}


def _note(tag):
    TAGS[tag] = TAGS.get(tag, 0) + 1


_SEQ = [0]


def build(spec, mode="prove", want=None, name=None):
    """Materialise the asserts-style function CrossHair analyses.  The first assert is the
    precondition, the last the postcondition."""
    _SEQ[0] += 1
    name = name or "cond_%d" % _SEQ[0]
    names = [p for p, _ in spec.params]
    ns = {"_pre": spec.pre, "_body": spec.body, "_note": _note, "_want": want}
    ann = []
    for i, (p, t) in enumerate(spec.params):
        ns["_T%d" % i] = t
        ann.append("%s: _T%d" % (p, i))
    args = ", ".join(names)
    post = "assert _ok" if mode == "prove" else "assert _tag != _want"
    src = (
        "def %s(%s):\n"
        "    assert _pre(%s), 'PRE'\n"
        "    _ok, _tag = _body(%s)\n"
        "    _note(_tag)\n"
        "    %s\n" % (name, ", ".join(ann), args, args, post)
    )
    wd = os.environ.get("VF_WORKDIR") or os.path.join(os.path.dirname(os.path.dirname(os.path.abspath(__file__))), ".work", "p%d" % os.getpid())
    os.makedirs(wd, exist_ok=True)
    filename = os.path.join(wd, "cond_%d_%d.py" % (os.getpid(), _SEQ[0]))
    with open(filename, "w") as f:  # a real file: CrossHair's asserts mode locates pre/postconditions by source line
        f.write(src)
    exec(compile(src, filename, "exec"), ns)
    fn = ns[name]
    import vf.condns  # noqa
    fn.__module__ = "vf.condns"
    return fn


def run_concrete(spec, args):
    """Plain evaluation of a condition on concrete arguments: ('pre-failed'|'ok'|'violated'|'escaped', tag, detail)."""
    try:
        if not spec.pre(*args):
            return ("pre-failed", None, "")
    except Exception as e:
        return ("pre-failed", None, "precondition raised %r" % (e,))
    try:
        ok, tag = spec.body(*args)
    except HarnessError as e:
        return ("harness-error", None, repr(e))
    except HarnessEscape as e:
        return ("violated", "escape", "exception escaped: %s" % e)
    return ("ok" if ok else "violated", tag, "")
