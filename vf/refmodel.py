"""Independent, deliberately naive reference interpreter for JSON Schema drafts 3/4/6/7 (DESIGN 2.3).

Written from the specifications; shares no code with jsonschema; recursive functions over plain
values, no generators, no resolver.  Only local references (`#`, `#/a/b`) are supported -- enough to
evaluate the bundled metaschemas (C11).  Imports nothing but `re` and `fractions`.

  valid(draft, schema, instance)      -> bool
  violations(draft, schema, instance) -> list of (keyword, instance path tuple) at the top-level schema
                                          object and below through in-place applicators, one entry per
                                          violation the specification distinguishes (C05)
"""
import re
from fractions import Fraction


class UnknownTypeName(Exception):
    pass


def is_num(x):
    return isinstance(x, (int, float)) and not isinstance(x, bool)


def is_int(draft, x):
    if isinstance(x, bool):
        return False
    if isinstance(x, int):
        return True
    if draft >= 6 and isinstance(x, float):
        return x == x and x not in (float("inf"), float("-inf")) and x == int(x)
    return False


TYPE_NAMES = ("null", "boolean", "integer", "number", "string", "array", "object")


def has_type(draft, x, t):
    if t == "any":
        if draft == 3:
            return True
        raise UnknownTypeName(t)
    if t == "null":
        return x is None
    if t == "boolean":
        return isinstance(x, bool)
    if t == "integer":
        return is_int(draft, x)
    if t == "number":
        return is_num(x)
    if t == "string":
        return isinstance(x, str)
    if t == "array":
        return isinstance(x, list)
    if t == "object":
        return isinstance(x, dict)
    raise UnknownTypeName(t)


def jeq(a, b):
    """JSON equality: numbers by value, booleans never equal to numbers, arrays ordered, objects unordered."""
    if isinstance(a, bool) or isinstance(b, bool):
        return isinstance(a, bool) and isinstance(b, bool) and a == b
    if is_num(a) or is_num(b):
        return is_num(a) and is_num(b) and a == b
    if a is None or b is None:
        return a is None and b is None
    if isinstance(a, str) or isinstance(b, str):
        return isinstance(a, str) and isinstance(b, str) and a == b
    if isinstance(a, list) or isinstance(b, list):
        if not (isinstance(a, list) and isinstance(b, list)) or len(a) != len(b):
            return False
        for x, y in zip(a, b):
            if not jeq(x, y):
                return False
        return True
    if isinstance(a, dict) and isinstance(b, dict):
        if len(a) != len(b):
            return False
        for k in a:
            if k not in b or not jeq(a[k], b[k]):
                return False
        return True
    return False


def multiple(x, d):
    if isinstance(x, int) and isinstance(d, int):
        return x % d == 0
    return (Fraction(x) / Fraction(d)).denominator == 1


def deref(root, ref):
    if not (ref == "#" or ref.startswith("#/")):
        raise NotImplementedError("non-local reference " + ref)
    cur = root
    if ref == "#":
        return cur
    for tok in ref[2:].split("/"):
        tok = tok.replace("~1", "/").replace("~0", "~")
        cur = cur[int(tok)] if isinstance(cur, list) else cur[tok]
    return cur


def as_list(v):
    return v if isinstance(v, list) else [v]


def valid(draft, schema, x, root=None):
    return len(_viol(draft, schema if root is None else root, schema, x, (), True)) == 0


def violations(draft, schema, x, root=None):
    return _viol(draft, schema if root is None else root, schema, x, (), False)


def _ok(d, root, s, x):
    return len(_viol(d, root, s, x, (), True)) == 0


def _viol(d, root, s, x, path, first_only):
    """List of (keyword, path) violated by x against schema s.  Errors found below in-place or child
    applicators are reported as (top keyword of this schema object, path of the failing value)."""
    out = []
    if s is True:
        return out
    if s is False:
        return [(None, path)]
    if "$ref" in s:
        return [("$ref", p) for _, p in _viol(d, root, deref(root, s["$ref"]), x, path, first_only)]

    def sub(kw, subschema, value, p):
        for _, q in _viol(d, root, subschema, value, p, first_only):
            out.append((kw, q))

    if "type" in s:
        m = False
        for t in as_list(s["type"]):
            if isinstance(t, (dict, bool)):
                if d == 3 and _ok(d, root, t, x):
                    m = True
            elif has_type(d, x, t):
                m = True
        if not m:
            out.append(("type", path))
    if d == 3 and "disallow" in s:
        for t in as_list(s["disallow"]):
            if isinstance(t, (dict, bool)):
                if _ok(d, root, t, x):
                    out.append(("disallow", path))
            elif has_type(d, x, t):
                out.append(("disallow", path))
    if d == 3 and "extends" in s:
        for e in as_list(s["extends"]):
            sub("extends", e, x, path)
    if "enum" in s:
        hit = False
        for e in s["enum"]:
            if jeq(x, e):
                hit = True
        if not hit:
            out.append(("enum", path))
    if d >= 6 and "const" in s and not jeq(x, s["const"]):
        out.append(("const", path))
    if is_num(x):
        if d <= 4:
            if "minimum" in s:
                if (x <= s["minimum"]) if s.get("exclusiveMinimum", False) else (x < s["minimum"]):
                    out.append(("minimum", path))
            if "maximum" in s:
                if (x >= s["maximum"]) if s.get("exclusiveMaximum", False) else (x > s["maximum"]):
                    out.append(("maximum", path))
        else:
            if "minimum" in s and x < s["minimum"]:
                out.append(("minimum", path))
            if "maximum" in s and x > s["maximum"]:
                out.append(("maximum", path))
            if "exclusiveMinimum" in s and x <= s["exclusiveMinimum"]:
                out.append(("exclusiveMinimum", path))
            if "exclusiveMaximum" in s and x >= s["exclusiveMaximum"]:
                out.append(("exclusiveMaximum", path))
        mk = "divisibleBy" if d == 3 else "multipleOf"
        if mk in s and not multiple(x, s[mk]):
            out.append((mk, path))
    if isinstance(x, str):
        if "minLength" in s and len(x) < s["minLength"]:
            out.append(("minLength", path))
        if "maxLength" in s and len(x) > s["maxLength"]:
            out.append(("maxLength", path))
        if "pattern" in s and re.search(s["pattern"], x) is None:
            out.append(("pattern", path))
    if isinstance(x, list):
        if "minItems" in s and len(x) < s["minItems"]:
            out.append(("minItems", path))
        if "maxItems" in s and len(x) > s["maxItems"]:
            out.append(("maxItems", path))
        if s.get("uniqueItems", False):
            dup = False
            for i in range(len(x)):
                for j in range(i + 1, len(x)):
                    if jeq(x[i], x[j]):
                        dup = True
            if dup:
                out.append(("uniqueItems", path))
        if "items" in s or "additionalItems" in s:
            items = s.get("items", {})
            if isinstance(items, list):
                for i, it in enumerate(x):
                    if i < len(items):
                        sub("items", items[i], it, path + (i,))
                if "additionalItems" in s:
                    ai = s["additionalItems"]
                    extra = x[len(items):]
                    if ai is False:
                        if extra:
                            out.append(("additionalItems", path))      # one error for all extras
                    elif ai is not True:
                        for i, it in enumerate(extra):
                            sub("additionalItems", ai, it, path + (len(items) + i,))
            else:
                for i, it in enumerate(x):
                    sub("items", items, it, path + (i,))
        if d >= 6 and "contains" in s:
            hit = False
            for it in x:
                if _ok(d, root, s["contains"], it):
                    hit = True
            if not hit:
                out.append(("contains", path))
    if isinstance(x, dict):
        if d >= 4:
            if "minProperties" in s and len(x) < s["minProperties"]:
                out.append(("minProperties", path))
            if "maxProperties" in s and len(x) > s["maxProperties"]:
                out.append(("maxProperties", path))
            for r in s.get("required", []):
                if r not in x:
                    out.append(("required", path))
        props = s.get("properties", {})
        pats = s.get("patternProperties", {})
        for k, subs in props.items():
            if k in x:
                sub("properties", subs, x[k], path + (k,))
            elif d == 3 and isinstance(subs, dict) and subs.get("required", False):
                out.append(("properties", path + (k,)))   # Draft 3: reported under the missing name, by `properties`
        for p, subs in pats.items():
            for k in x:
                if re.search(p, k) is not None:
                    sub("patternProperties", subs, x[k], path + (k,))
        if "additionalProperties" in s:
            ap = s["additionalProperties"]
            extras = []
            for k in x:
                matched = k in props
                for p in pats:
                    if re.search(p, k) is not None:
                        matched = True
                if not matched:
                    extras.append(k)
            if isinstance(ap, dict):
                for k in extras:
                    sub("additionalProperties", ap, x[k], path + (k,))
            elif not ap and extras:
                out.append(("additionalProperties", path))            # one error for all extras
        if d >= 6 and "propertyNames" in s:
            for k in x:
                for _ in _viol(d, root, s["propertyNames"], k, path, first_only):
                    out.append(("propertyNames", path))
        for k, dep in s.get("dependencies", {}).items():
            if k in x:
                if isinstance(dep, str):
                    if dep not in x:
                        out.append(("dependencies", path))
                elif isinstance(dep, list):
                    for q in dep:
                        if q not in x:
                            out.append(("dependencies", path))
                else:
                    sub("dependencies", dep, x, path)
    if d >= 4:
        for subs in s.get("allOf", []):
            sub("allOf", subs, x, path)
        if "anyOf" in s:
            hit = False
            for subs in s["anyOf"]:
                if _ok(d, root, subs, x):
                    hit = True
            if not hit:
                out.append(("anyOf", path))
        if "oneOf" in s:
            n = 0
            for subs in s["oneOf"]:
                if _ok(d, root, subs, x):
                    n += 1
            if n != 1:
                out.append(("oneOf", path))
        if "not" in s and _ok(d, root, s["not"], x):
            out.append(("not", path))
    if d >= 7 and "if" in s:
        if _ok(d, root, s["if"], x):
            if "then" in s:
                sub("if", s["then"], x, path)
        elif "else" in s:
            sub("if", s["else"], x, path)
    return out
