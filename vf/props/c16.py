"""C16 -- deriving checkers and validator classes never disturbs the originals (E1, bounded derivation histories)."""
import warnings
from typing import List

from jsonschema import FormatChecker, TypeChecker, validators
from jsonschema.exceptions import RefResolutionError, UndefinedTypeCheck, UnknownType

from vf import templates as tp
from vf.harness import HarnessEscape, Spec, small

META = {
    "level": "model_checking",
    "explanation": "bounded symbolic execution of derivation histories: a symbolic sequence of operations (extend plain / with a keyword "
                   "override / with a type checker, create, TypeChecker.redefine / redefine_many / remove, Validator(types=...), "
                   "checker.checks, FormatChecker.cls_checks, FormatChecker(formats=...)) is applied; after every step every object created "
                   "so far must answer its recorded behavioural probes (types, overridden keyword, ids, formats) exactly as when it was "
                   "created; extend() without changes is probe-equivalent to its parent; class-wide format registration affects only "
                   "FormatChecker objects created afterwards",
    "bounds": {"history length": "<= 2 derivation steps", "probe instance": "symbolic int or short string", "base drafts": "3, 4, 6, 7"},
    "outside": ["histories longer than the bound", "probes beyond the listed ones"],
    "stubs": ["message formatting"],
    "assumptions": ["global registries (validators, meta_schemas, FormatChecker.checkers) are snapshotted and restored around each path"],
}

N_OPS = 10


def probe_cls(cls, x, d):
    """behavioural probes of a validator class"""
    idk = "id" if d in (3, 4) else "$id"
    ref_schema = {idk: "http://a.test/b", "properties": {"q": {"$ref": "http://a.test/b#/definitions/z"}}, "definitions": {"z": {"maximum": 0}}}   # resolvable only if the class looks for ids in the right place
    out = [sorted((k, getattr(v, "__name__", str(v))) for k, v in cls._DEFAULT_TYPES.items())]     # the deprecated class-level mapping
    for schema, inst in (({"type": "integer"}, x), ({"type": "string"}, x), ({"minimum": 3}, x), ({"maximum": 3}, x),
                         ({"type": "number"}, True), (ref_schema, {"q": x})):
        try:
            out.append(cls(schema).is_valid(inst))
        except UnknownType:
            out.append("unknown-type")
        except RefResolutionError:
            out.append("unresolvable")
        except Exception as e:
            raise HarnessEscape(type(e).__name__)
    return out


def probe_tc(tc, x):
    out = []
    for name in ("integer", "string", "number", "frob"):
        try:
            out.append(tc.is_type(x, name))
        except UndefinedTypeCheck:
            out.append("undefined")
    return out


def probe_fc(fc, x):
    return [fc.conforms(x, "email"), fc.conforms(x, "zzz-even"), sorted(fc.checkers) == sorted(set(fc.checkers))]


def history(d, n, kind="int"):
    def pre(ops, x):
        if len(ops) != n or not small(x, 2, 2):
            return False
        for o in ops:
            if not (0 <= o < N_OPS):
                return False
        return True

    def body(ops, x):
        snap_v = dict(validators.validators)
        snap_m = dict(validators.meta_schemas.store)
        snap_f = dict(FormatChecker.checkers)
        try:
            base = tp.CLS[d]
            clss = [(base, probe_cls(base, x, d))]
            tcs = [(base.TYPE_CHECKER, probe_tc(base.TYPE_CHECKER, x))]
            fc0 = FormatChecker()
            fcs = [(fc0, probe_fc(fc0, x))]
            insts = []
            for o in ops:
                parent = clss[-1][0]
                ptc = tcs[-1][0]
                new_cls = new_tc = new_fc = None
                same_as_parent = False
                try:
                    if o == 0:
                        new_cls = validators.extend(parent)
                        same_as_parent = True
                    elif o == 1:
                        new_cls = validators.extend(parent, validators={"minimum": lambda v, m, i, s: iter(())})
                    elif o == 2:
                        new_tc = ptc.redefine("integer", lambda c, i: True)
                        new_cls = validators.extend(parent, type_checker=new_tc)
                    elif o == 3:
                        new_tc = ptc.remove("string")
                    elif o == 4:
                        new_tc = ptc.redefine_many({"frob": lambda c, i: isinstance(i, int), "string": lambda c, i: False})
                    elif o == 5:
                        new_cls = validators.create(parent.META_SCHEMA, parent.VALIDATORS, type_checker=parent.TYPE_CHECKER, id_of=parent.ID_OF)
                        same_as_parent = True
                    elif o == 6:
                        with warnings.catch_warnings():
                            warnings.simplefilter("ignore")
                            v = parent({"type": "integer"}, types={"integer": str, "array": (list, tuple)})
                        insts.append((v, [v.is_valid(x), v.is_valid("s")]))
                        if [v.is_valid(x), v.is_valid("s")] != [isinstance(x, str), True]:
                            return False, "n%d" % n
                    elif o == 7:
                        fcn = fcs[-1][0]
                        fcn.checks("zzz-even")(lambda i: not isinstance(i, int) or i % 2 == 0)
                        fcs[-1] = (fcn, probe_fc(fcn, x))            # the instance itself changed, as documented
                        new_fc = FormatChecker(formats=["email"])
                    elif o == 8:
                        FormatChecker.cls_checks("zzz-even")(lambda i: False)
                        new_fc = FormatChecker()
                    else:
                        with warnings.catch_warnings():
                            warnings.simplefilter("ignore")
                            new_cls = validators.create(parent.META_SCHEMA, parent.VALIDATORS, id_of=parent.ID_OF)      # default types
                except UndefinedTypeCheck:
                    pass                                                 # removing a type twice is a documented error
                except Exception as e:
                    raise HarnessEscape(type(e).__name__)
                if new_cls is not None:
                    rec = probe_cls(new_cls, x, d)
                    if same_as_parent and rec != clss[-1][1]:
                        return False, "n%d" % n
                    if o == 1:
                        want = list(clss[-1][1])
                        want[3] = True               # only the overridden keyword changes (probe 0 is the deprecated type mapping)
                        if rec != want:
                            return False, "n%d" % n
                    clss.append((new_cls, rec))
                if new_tc is not None:
                    rec = probe_tc(new_tc, x)
                    prev = tcs[-1][1]
                    # what the derivation must mean, independently of any lookup made earlier on the parent
                    if o == 2 and (rec[0] is not True or rec[1:] != prev[1:]):
                        return False, "n%d" % n
                    if o == 3 and (rec[1] != "undefined" or rec[0] != prev[0] or rec[2:] != prev[2:]):
                        return False, "n%d" % n
                    if o == 4 and (rec[1] is not False or rec[3] != isinstance(x, int) or rec[0] != prev[0] or rec[2] != prev[2]):
                        return False, "n%d" % n
                    tcs.append((new_tc, rec))
                if new_fc is not None:
                    fcs.append((new_fc, probe_fc(new_fc, x)))
                # every earlier object still answers as recorded
                for c, rec in clss:
                    if probe_cls(c, x, d) != rec:
                        return False, "n%d" % n
                for t, rec in tcs:
                    if probe_tc(t, x) != rec:
                        return False, "n%d" % n
                for f, rec in fcs:
                    if probe_fc(f, x) != rec:
                        return False, "n%d" % n
                for v, rec in insts:
                    if [v.is_valid(x), v.is_valid("s")] != rec:
                        return False, "n%d" % n
                if validators.meta_schemas.store != snap_m or dict(validators.validators) != snap_v:
                    return False, "n%d" % n
            return True, "n%d" % n
        finally:
            validators.validators.clear()
            validators.validators.update(snap_v)
            validators.meta_schemas.store.clear()
            validators.meta_schemas.store.update(snap_m)
            FormatChecker.checkers.clear()
            FormatChecker.checkers.update(snap_f)

    T = int if kind == "int" else str
    return Spec([("ops", List[int]), ("x", T)], pre, body, tags=["n%d" % n])


def first_op(d, n, first, kind="int"):
    """cube: the first operation is fixed"""
    spec = history(d, n, kind)
    inner_pre = spec.pre

    def pre(ops, x):
        return inner_pre(ops, x) and ops[0] == first

    spec.pre = pre
    return spec


def conditions(tier, seed, active):
    out = []
    quick = tier == "quick"
    for d in (3, 4, 6, 7):
        for kind in ("int", "str"):
            out.append(dict(id="history/d%d/n1/%s" % (d, kind), module=__name__, factory="history", params=dict(d=d, n=1, kind=kind), timeout=600,
                            tags=["n1"], witness=["n1"]))
        for first in range(N_OPS):
            if quick and d in (3, 6):
                continue            # quick: two-step histories for Drafts 4 and 7; one-step histories for all four
            out.append(dict(id="history/d%d/n2/first%d" % (d, first), module=__name__, factory="first_op",
                            params=dict(d=d, n=2, first=first), timeout=900, tags=["n2"], witness=[]))
            if not quick:
                # thorough: two-step histories for all four drafts and for string probes as well (three-step histories did not finish
                # within 50 minutes as one tier and are not part of it)
                out.append(dict(id="history/d%d/n2/first%d/str" % (d, first), module=__name__, factory="first_op",
                                params=dict(d=d, n=2, first=first, kind="str"), timeout=3000, tags=["n2"], witness=[]))
    return out
