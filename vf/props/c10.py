"""C10 -- unknown, annotation and other-draft keywords never affect validation (E1, implementation vs itself)."""
import random

from vf import templates as tp
from vf.harness import HarnessEscape, KIND_TYPES, Scalar, Spec, esig, multiset_eq, small

META = {
    "level": "model_checking",
    "explanation": "bounded symbolic execution: a keyword from outside the draft's vocabulary (annotations, other drafts' keywords, later "
                   "specifications' keywords, unknown and look-alike names -- concrete names, computed from a specification vocabulary table "
                   "in the harness, not from the class's VALIDATORS) with a symbolic JSON value is inserted at the root or in a subschema "
                   "position of a host template; the error signatures with and without it must be identical; also any keyword next to "
                   "$ref, and id/$id honoured only by the right drafts",
    "bounds": {"foreign value": "every JSON kind, strings <= 2, containers <= 2", "host": "sample of T1/T2 templates", "instances": "as C01"},
    "outside": ["symbolic keyword names (native hashing in VALIDATORS.get)"],
    "stubs": ["message formatting"],
    "assumptions": ["the specification vocabulary table in this file"],
}

VOCAB = {
    3: {"$ref", "$schema", "id", "type", "properties", "patternProperties", "additionalProperties", "items", "additionalItems", "required",
        "dependencies", "minimum", "maximum", "exclusiveMinimum", "exclusiveMaximum", "minItems", "maxItems", "uniqueItems", "pattern",
        "minLength", "maxLength", "enum", "default", "title", "description", "format", "divisibleBy", "disallow", "extends"},
    4: {"$ref", "$schema", "id", "type", "properties", "patternProperties", "additionalProperties", "items", "additionalItems", "required",
        "dependencies", "minimum", "maximum", "exclusiveMinimum", "exclusiveMaximum", "minItems", "maxItems", "uniqueItems", "pattern",
        "minLength", "maxLength", "enum", "default", "title", "description", "format", "multipleOf", "allOf", "anyOf", "oneOf", "not",
        "minProperties", "maxProperties", "definitions"},
}
VOCAB[6] = (VOCAB[4] - {"id"}) | {"$id", "const", "contains", "propertyNames", "examples"}
VOCAB[7] = VOCAB[6] | {"if", "then", "else", "$comment", "readOnly", "writeOnly", "contentMediaType", "contentEncoding"}
LATER = {"$defs", "$anchor", "$recursiveRef", "$recursiveAnchor", "$dynamicRef", "$dynamicAnchor", "$vocabulary", "dependentRequired",
         "dependentSchemas", "unevaluatedItems", "unevaluatedProperties", "maxContains", "minContains", "prefixItems", "deprecated"}
ODD = {"", "x", "Type", "$Ref", "ｔype", "TYPE", "typ", "items ", "max", "required?", "__class__", "0"}
# names that change how *another* keyword of the host behaves in this draft (sibling look-ups): not foreign
CONSULTED = {3: {"exclusiveMinimum", "exclusiveMaximum", "properties", "patternProperties", "items", "required"},
             4: {"exclusiveMinimum", "exclusiveMaximum", "properties", "patternProperties", "items"},
             6: {"properties", "patternProperties", "items"}, 7: {"properties", "patternProperties", "items", "then", "else"}}
# annotations and keywords without validation effect inside the draft's own vocabulary: inert too
INERT = {3: {"default", "title", "description", "$schema", "definitions"}, 4: {"default", "title", "description", "$schema", "definitions"},
         6: {"default", "title", "description", "$schema", "definitions", "examples"},
         7: {"default", "title", "description", "$schema", "definitions", "examples", "$comment", "readOnly", "writeOnly",
             "contentMediaType", "contentEncoding"}}


def foreign_names(d):
    everything = set().union(*VOCAB.values()) | LATER | ODD
    foreign = (everything - VOCAB[d] - CONSULTED[d]) | INERT[d]
    foreign -= {"$ref", "id", "$id"}        # handled by their own conditions
    return sorted(foreign)


VALUE_KINDS = ["null", "bool", "int", "str", "arr_int", "arr_str", "obj_int", "arr_scalar"]
VALUE_KINDS_QUICK = ["null", "bool", "int", "str", "arr_int", "obj_int"]
POSITIONS = {
    "root": lambda d, host, k, v: dict(host, **{k: v}),
    "in_items": lambda d, host, k, v: {"items": dict(host, **{k: v})},
    "in_properties": lambda d, host, k, v: {"properties": {"a": dict(host, **{k: v}), "b": host}},
    "in_applicator": lambda d, host, k, v: ({"extends": [dict(host, **{k: v}), {}]} if d == 3 else {"allOf": [{}, dict(host, **{k: v})]}),
    "in_dependencies": lambda d, host, k, v: {"dependencies": {"a": dict(host, **{k: v})}},
}
POS_KIND = {"root": None, "in_items": "arr", "in_properties": "obj", "in_applicator": None, "in_dependencies": "dep"}


def sigs(d, schema, x):
    try:
        return [esig(e) for e in tp.CLS[d](schema).iter_errors(x)]
    except Exception as e:
        raise HarnessEscape(type(e).__name__)


def foreign(d, host, kind, name, vkind, position="root", L=2, N=2, NV=2):
    t = tp.BY_NAME[host]
    place = POSITIONS[position]
    pk = POS_KIND[position]
    xkind = kind
    if pk == "arr":
        xkind = tp.NEST.get((kind, "arr"), None)
    elif pk == "obj":
        xkind = tp.NEST.get((kind, "obj"), None)
    elif pk == "dep":
        xkind = "obj_int"
    if xkind is None:
        raise ValueError("position %s not available for kind %s" % (position, kind))

    def pre(x, v, *hs):
        if not (small(x, L, N, 1) and small(v, L, NV)):
            return False
        for h in hs:
            if not small(h, L, N):
                return False
        return t.pre is None or t.pre(d, *hs)

    def body(x, v, *hs):
        base = t.mk(d, *hs)
        if not isinstance(base, dict) or name in base:
            return True, "skip"
        with_kw = place(d, base, name, v)
        without = place(d, base, "title", "t")
        a = sigs(d, without, x)
        b = sigs(d, with_kw, x)
        return multiset_eq(a, b), ("valid" if not a else "invalid")

    params = [("x", KIND_TYPES[xkind]), ("v", KIND_TYPES[vkind])] + [("h_" + n, ty) for n, ty in t.holes]
    return Spec(params, pre, body, tags=[])


def next_to_ref(d, name, vkind):
    """any keyword at all written next to $ref is ignored"""
    def pre(x, v, a):
        return small(x, 2, 2) and small(v, 2, 2)

    def body(x, v, a):
        plain = {"definitions": {"t": {"maximum": a}}, "$ref": "#/definitions/t"}
        loud = dict(plain)
        loud[name] = v                         # written after $ref
        early = {name: v}
        early.update(plain)                    # written before $ref (key order must not matter)
        p = sigs(d, {"properties": {"k": plain}, "definitions": plain["definitions"]}, x)
        q = sigs(d, {"properties": {"k": loud}, "definitions": plain["definitions"]}, x)
        r = sigs(d, {"properties": {"k": early}, "definitions": plain["definitions"]}, x)
        return multiset_eq(p, q) and multiset_eq(p, r), ("valid" if not p else "invalid")

    return Spec([("x", KIND_TYPES["obj_int"]), ("v", KIND_TYPES[vkind]), ("a", int)], pre, body, tags=["valid", "invalid"])


def id_keyword(d):
    """`id` sets a base only in drafts 3/4, `$id` only in 6/7: a relative reference must resolve as if the wrong one were absent"""
    wrong = "$id" if d in (3, 4) else "id"

    def pre(x, a, b):
        return small(x, 2, 2)

    def body(x, a, b):
        root = {"definitions": {"n": {"maximum": a}}, "properties": {"k": {"$ref": "#/definitions/n"}}}
        odd = {"definitions": {"n": {"maximum": a}},
               "properties": {"k": {wrong: "http://elsewhere.test/other.json", "allOf" if d != 3 else "extends": [{"$ref": "#/definitions/n"}]}}}
        plain = {"definitions": {"n": {"maximum": a}}, "properties": {"k": {"allOf" if d != 3 else "extends": [{"$ref": "#/definitions/n"}]}}}
        p = [s[:3] for s in sigs(d, plain, x)]
        q = [s[:3] for s in sigs(d, odd, x)]
        r = [s[0] for s in sigs(d, root, x)]
        return multiset_eq(p, q) and len(r) == len(p), ("valid" if not p else "invalid")

    return Spec([("x", KIND_TYPES["obj_int"]), ("a", int), ("b", int)], pre, body, tags=["valid", "invalid"])


HOSTS = [("maximum", "int"), ("g_string", "str"), ("type", "int"), ("enum", "int"), ("items_tuple", "arr_int"), ("required", "obj_int"),
         ("g_min_excl_bool", "int"), ("anyOf", "int"), ("uniqueItems", "arr_int"), ("additionalProperties_bool", "obj_int"),
         ("if_then_else", "int"), ("extends_d3", "int"), ("properties", "obj_int"), ("dependencies_array", "obj_int")]
HOSTS_QUICK = [("maximum", "int"), ("type", "int"), ("items_tuple", "arr_int"), ("g_min_excl_bool", "int"), ("anyOf", "int"),
               ("uniqueItems", "arr_int"), ("if_then_else", "int"), ("extends_d3", "int"), ("minLength", "str"), ("not", "int")]


# a foreign keyword next to the keyword it modifies or replaces in its own specification (where a leak would be most natural)
RELATED = {
    "minContains": [("contains", "arr_int"), ("g_array_contains", "arr_int")], "maxContains": [("contains", "arr_int")],
    "dependentRequired": [("dependencies_array", "obj_int"), ("required", "obj_int")], "dependentSchemas": [("dependencies_schema", "obj_int")],
    "unevaluatedItems": [("items_tuple", "arr_int"), ("items_tuple_addl_bool", "arr_int")],
    "unevaluatedProperties": [("additionalProperties_bool", "obj_int"), ("properties", "obj_int")],
    "prefixItems": [("items_schema", "arr_int"), ("items_tuple", "arr_int")], "$defs": [("maximum", "int")],
    "divisibleBy": [("multipleOf", "int")], "multipleOf": [("multipleOf", "int")], "extends": [("allOf", "int")],
    "disallow": [("not", "int"), ("type", "int")], "const": [("enum", "int")], "contains": [("items_schema", "arr_int")],
    "propertyNames": [("properties", "obj_int"), ("patternProperties", "obj_int")], "if": [("anyOf", "int")], "then": [("anyOf", "int")],
    "else": [("anyOf", "int")], "allOf": [("extends_d3", "int")], "anyOf": [("type_schema_d3", "int")], "not": [("disallow_d3", "int")],
    "oneOf": [("extends_d3", "int")], "minProperties": [("properties", "obj_int")], "maxProperties": [("properties", "obj_int")],
    "required": [("properties", "obj_int")], "examples": [("enum", "int")], "exclusiveMinimum": [("minimum", "int")],
    "exclusiveMaximum": [("maximum", "int")], "$recursiveRef": [("maximum", "int")], "definitions": [("maximum", "int")],
}


def conditions(tier, seed, active):
    out = []
    rng = random.Random(seed)
    quick = tier == "quick"

    def c(cid, factory, params, tags=(), timeout=900):
        out.append(dict(id=cid, module=__name__, factory=factory, params=params, timeout=timeout, tags=list(tags), witness=list(tags) if tags else []))

    for d in (3, 4, 6, 7):
        c("id-keyword/d%d" % d, "id_keyword", dict(d=d), ["valid", "invalid"])
        names = foreign_names(d)
        hosts = [(h, k) for h, k in (HOSTS_QUICK if quick else HOSTS) if d in tp.BY_NAME[h].drafts]
        nv = 1 if quick else 2
        for name in names:
            # every foreign name at the root of one host with one value kind (seeded rotation in quick; all value kinds in thorough)
            for vk in (rng.sample(VALUE_KINDS, 3) if not quick else [rng.choice(VALUE_KINDS_QUICK)]):
                h, k = rng.choice(hosts)
                c("root/%s=%s/%s/d%d" % (name, vk, h, d), "foreign", dict(d=d, host=h, kind=k, name=name, vkind=vk, NV=nv))
            if rng.random() < (0.25 if quick else 0.6):
                for pos in ("in_items", "in_properties", "in_applicator", "in_dependencies"):
                    if rng.random() < 0.5:
                        continue
                    h, k = rng.choice([hk for hk in hosts if hk[1] == "int"])
                    vk = rng.choice(VALUE_KINDS_QUICK if quick else VALUE_KINDS)
                    c("%s/%s=%s/%s/d%d" % (pos, name, vk, h, d), "foreign", dict(d=d, host=h, kind=k, name=name, vkind=vk, position=pos, L=1, NV=nv))
        for name in names:
            for h, k in RELATED.get(name, []):
                if d not in tp.BY_NAME[h].drafts or name in tp.top_keys(h, d):
                    continue
                for vk in (("int", "bool") if quick else ("int", "bool", "obj_int", "null", "str", "arr_int")):
                    c("related/%s=%s/%s/d%d" % (name, vk, h, d), "foreign", dict(d=d, host=h, kind=k, name=name, vkind=vk, NV=nv))
        # next to $ref: any keyword of the draft itself as well
        # (Draft 3 `required` next to $ref inside `properties` is read lexically by the parent: excluded by the property)
        own = sorted(VOCAB[d] - {"$ref", "definitions", "id", "$id", "$schema"} - ({"required"} if d == 3 else set()))
        cands = own + names[:10]
        if quick:
            cands = rng.sample(cands, 12)
        for name in cands:
            vk = rng.choice(VALUE_KINDS_QUICK if quick else VALUE_KINDS)
            c("next-to-ref/%s=%s/d%d" % (name, vk, d), "next_to_ref", dict(d=d, name=name, vkind=vk), ["valid", "invalid"])
    return out
