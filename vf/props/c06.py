"""C06 -- each error locates itself truthfully in the instance and in the schema (E1)."""
from typing import Dict, List

from vf import templates as tp
from vf.harness import HarnessEscape, Spec, small

META = {
    "level": "model_checking",
    "explanation": "bounded symbolic execution of iter_errors; for every error in the transitive context closure: walking absolute_path from "
                   "the instance reaches error.instance; keyword == last schema-path element; error.schema[keyword] is the recorded value; "
                   "walking absolute_schema_path from the root schema (hopping through $ref with the harness's own pointer resolver exactly "
                   "where the node reached is a reference object) reaches that value; absolute = parent's absolute + relative; json_path is "
                   "the harness's own rendering of the absolute path",
    "bounds": {"templates": "T2, T3 (applicators with >= 2 elements), $ref templates", "strings": "<= 2", "containers": "<= 2", "integers": "unbounded"},
    "outside": ["Draft 3 required errors, errors under propertyNames, errors of a false schema (documented exceptions, checked in their stated form)"],
    "stubs": ["message formatting"],
    "assumptions": ["CrossHair's library models"],
}


def closure(errs):
    out, stack = [], list(errs)
    while stack:
        e = stack.pop()
        out.append(e)
        stack.extend(e.context)
    return out


def deref(root, ref):
    if ref == "#":
        return root
    cur = root
    from urllib.parse import unquote
    for tok in unquote(ref[2:]).split("/"):
        tok = tok.replace("~1", "/").replace("~0", "~")
        cur = cur[int(tok)] if isinstance(cur, list) else cur[tok]
    return cur


def nav_schema(root, path):
    cur = root
    for p in path:
        hops = 0
        while isinstance(cur, dict) and "$ref" in cur:
            cur = deref(root, cur["$ref"])
            hops += 1
            if hops > 5:
                raise HarnessEscape("reference cycle while navigating")
        cur = cur[p]
    return cur


def render(path):
    out = "$"
    for p in path:
        if isinstance(p, int):
            out += "[" + str(p) + "]"
        else:
            out += "." + p
    return out


def same(a, b):
    return a is b or (type(a) is type(b) and a == b)


def check(d, schema, x):
    try:
        return check_inner(d, schema, x)
    except (KeyError, IndexError, TypeError, AttributeError):
        return False, "navigation-failed"        # a recorded path that cannot be followed is a violation, not a harness crash


def check_inner(d, schema, x):
    cls = tp.CLS[d]
    try:
        errs = list(cls(schema).iter_errors(x))
    except Exception as e:
        raise HarnessEscape(type(e).__name__)
    tag = "valid" if not errs else "invalid"
    for top in errs:
        if top.parent is not None:
            return False, tag
    for e in closure(errs):
        for c in e.context:
            if c.parent is not e:
                return False, tag
        ap = list(e.absolute_path)
        asp = list(e.absolute_schema_path)
        if e.parent is not None:
            if ap != list(e.parent.absolute_path) + list(e.relative_path):
                return False, tag
            if asp != list(e.parent.absolute_schema_path) + list(e.relative_schema_path):
                return False, tag
        elif ap != list(e.path) or asp != list(e.schema_path):
            return False, tag
        if list(e.path) != list(e.relative_path) or list(e.schema_path) != list(e.relative_schema_path):
            return False, tag
        under_names = "propertyNames" in asp
        d3_required = d == 3 and e.validator == "required" and len(asp) >= 2 and asp[-1] == "required"
        false_schema = e.validator is None
        # instance location
        if d3_required:
            cur = x
            for p in ap[:-1]:
                cur = cur[p]
            if not same(cur, e.instance) or ap[-1] in cur:
                return False, tag
        elif not under_names:
            cur = x
            for p in ap:
                cur = cur[p]
            if not same(cur, e.instance):
                return False, tag
            if e.json_path != render(ap):
                return False, tag
        # schema location
        if false_schema:
            if e.schema is not False or nav_schema(schema, asp) is not False:
                return False, tag
            continue
        if asp[-1] != e.validator:
            return False, tag
        node = nav_schema(schema, asp)
        if not same(node, e.validator_value):
            return False, tag
        if not d3_required:
            if not isinstance(e.schema, dict) or e.validator not in e.schema or not same(e.schema[e.validator], e.validator_value):
                return False, tag
            parent_node = nav_schema(schema, asp[:-1])
            hops = 0
            while isinstance(parent_node, dict) and "$ref" in parent_node and hops < 5:
                parent_node = deref(schema, parent_node["$ref"])
                hops += 1
            if not same(parent_node, e.schema):
                return False, tag
    return True, tag


def single(name, draft, kind, L=2, N=2, N2=None, pair=None, tags=()):
    return tp.make_spec(name, draft, kind, check, L=L, N=N, N2=N2, pair=pair, tags=tags)


# ---- $ref templates: errors located through reference hops ---------------------------------------
REF_SCHEMAS = {
    "defs_items_anyOf": (7, Dict[str, List[int]], lambda a, b: {
        "definitions": {"d": {"items": {"anyOf": [{"maximum": a}, {"$ref": "#/definitions/e"}]}}, "e": {"minimum": b, "multipleOf": 3}},
        "additionalProperties": {"$ref": "#/definitions/d"}, "properties": {"p": {"allOf": [{"$ref": "#/definitions/d"}, {"maxItems": 1}]}}}),
    "recursive_root": (6, List[List[int]], lambda a, b: {"items": {"$ref": "#"}, "maxItems": 1, "maximum": a, "minimum": b}),
    "d4_chain": (4, Dict[str, int], lambda a, b: {
        "definitions": {"a~b": {"$ref": "#/definitions/c%25d"}, "c%d": {"maximum": a}, "": {"minimum": b}},
        "properties": {"x": {"$ref": "#/definitions/a~0b"}}, "additionalProperties": {"oneOf": [{"$ref": "#/definitions/"}, {"type": "string"}]}}),
    "d3_extends_ref": (3, Dict[str, int], lambda a, b: {
        "definitions": {"m": {"maximum": a}}, "extends": [{"properties": {"x": {"$ref": "#/definitions/m"}}}, {"additionalProperties": {"minimum": b}}],
        "properties": {"y": {"required": True, "type": [{"$ref": "#/definitions/m"}, "string"]}}}),
}


def refs(name):
    d, T, mk = REF_SCHEMAS[name]

    def pre(x, a, b):
        if name == "defs_items_anyOf":
            return small(x, 1, 1, 2)       # Dict[str, List[int]]: one member (two-level symbolic containers do not finish otherwise)
        return small(x, 1, 2, 2)

    def body(x, a, b):
        return check(d, mk(a, b), x)

    return Spec([("x", T), ("a", int), ("b", int)], pre, body, tags=["valid", "invalid"])


def conditions(tier, seed, active):
    quick = tier == "quick"
    applicators = ("items_schema", "items_tuple", "items_tuple_addl_schema", "contains", "properties", "properties_required_d3", "patternProperties",
                   "additionalProperties_schema", "propertyNames", "dependencies_schema", "dependencies_bool", "allOf", "anyOf", "oneOf", "oneOf3", "not",
                   "if_then_else", "extends_d3", "extends_single_d3", "disallow_d3", "type_schema_d3", "anyOf_mixed", "empty_dependencies")
    out = tp.gen_conditions(__name__, "single", tier, seed, groups=("T1", "T2", "T3", "T4"), rate={"T1": 0.2, "T2": 0.6, "T3": 0.2},
                            pairs_quick=8, rest=False, tags_from_template=False, always=applicators)
    for c in out:
        c["tags"] = []
        c["witness"] = []
    for name in REF_SCHEMAS:
        out.append(dict(id="ref/" + name, module=__name__, factory="refs", params=dict(name=name), timeout=1200 if quick else 3000,
                        tags=["valid", "invalid"], witness=["valid", "invalid"]))
    return out
