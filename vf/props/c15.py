"""C15 -- reference retrieval and caching are transparent, frugal and offline-safe (E1, bounded histories with
counting stubs)."""
from functools import lru_cache
from typing import List

from jsonschema import RefResolver, validators
from jsonschema.exceptions import RefResolutionError

from vf import templates as tp
from vf.harness import HarnessEscape, Spec, pick

META = {
    "level": "model_checking",
    "explanation": "bounded symbolic execution of histories of validations and direct resolutions over a schema referring to two external "
                   "documents through several fragments and to the bundled metaschemas: the sequence of (reference kind, instance value), "
                   "the fault schedule of the counting handlers and cache_remote are symbolic; cache functions, URI spellings and the "
                   "draft are concrete dimensions; urlopen (and requests, if importable) are replaced by stubs that record and raise",
    "bounds": {"history": "<= 2 operations (validations or direct resolutions)", "documents": 2, "fragments per document": "2-3", "fault schedule": "first 3 fetches"},
    "outside": ["real network I/O", "eviction orders of caches larger than 1 entry beyond the listed sizes"],
    "stubs": ["handlers (counting, symbolic faults)", "jsonschema.validators.urlopen (records and raises)", "requests.get if importable"],
    "assumptions": ["CrossHair's library models"],
}
DOC1 = "http://r.test/doc.json"
DOC2 = "http://r.test/two.json"
DOC3 = "http://r.test/Doc.json"          # differs from DOC1 only by case: a different document


class HandlerDown(Exception):
    pass
META_IDS = {3: "http://json-schema.org/draft-03/schema", 4: "http://json-schema.org/draft-04/schema",
            6: "http://json-schema.org/draft-06/schema", 7: "http://json-schema.org/draft-07/schema"}
KEYS = ["a", "b", "c", "d", "e", "m", "n", "s", "t", "u"]


def schema_for(d):
    return {"properties": {
        "a": {"$ref": DOC1 + "#/definitions/a"},
        "b": {"$ref": DOC1 + "#/definitions/b"},
        "c": {"$ref": DOC1 + "#"},
        "d": {"$ref": DOC1},
        "e": {"$ref": DOC2 + "#/definitions/a"},
        "u": {"$ref": DOC3 + "#/definitions/a"},
        "m": {"$ref": META_IDS[d] + "#/properties/maxLength" if d in (3, 4) else META_IDS[d] + "#/definitions/nonNegativeInteger"},
        "n": {"$ref": META_IDS[7] + "#/definitions/nonNegativeInteger"},
        "s": {"$ref": "http://s.test/in-store.json#/definitions/a"},
        "t": {"$ref": "http://s.test/hash.json#/definitions/a"},          # supplied in the store under the spelling "...json#"
    }}


def oracle(d, key, val):
    """expected keyword list of the error(s) for {key: val}"""
    if key == "a":
        return [] if val <= 3 else ["maximum"]
    if key == "b":
        return [] if val >= 1 else ["minimum"]
    if key in ("c", "d"):
        return []
    if key == "e":
        return [] if val <= 30 else ["maximum"]
    if key == "u":
        return [] if val <= 33 else ["maximum"]
    if key == "m":
        if d == 3:
            return []                 # Draft 3 metaschema: maxLength is just {"type": "integer"}
        return [] if val >= 0 else ["minimum"]
    if key == "n":
        return [] if val >= 0 else ["minimum"]
    if key == "t":
        return [] if val <= 3000 else ["maximum"]
    return [] if val <= 300 else ["maximum"]


def caches(which, resolver_box):
    if which == "default":
        return {}
    if which == "passthrough":
        return dict(urljoin_cache=lambda f: f, remote_cache=lambda f: f)
    raise ValueError(which)


def history(d, n, cache_kind="default"):
    cls = tp.CLS[d]

    def pre(keys, vals, direct, cache_remote, faults, exc_kind):
        if len(keys) != n or len(vals) != n or len(direct) != n or len(faults) != 3 or not (0 <= exc_kind < 4):
            return False
        for k in keys:
            if not (0 <= k < len(KEYS)):
                return False
        return True

    def body(keys, vals, direct, cache_remote, faults, exc_kind):
        docs = {DOC1: {"definitions": {"a": {"maximum": 3}, "b": {"minimum": 1}}}, DOC2: {"definitions": {"a": {"maximum": 30}}},
                DOC3: {"definitions": {"a": {"maximum": 33}}}}
        log = []
        netlog = []

        def handler(uri):
            log.append(uri)
            if len(log) <= len(faults) and faults[len(log) - 1]:
                # any failure of a handler, whatever its class
                if exc_kind == 0:
                    raise OSError("boom")
                if exc_kind == 1:
                    raise KeyError(uri)
                if exc_kind == 2:
                    raise RuntimeError("boom")
                raise HandlerDown(uri)
            return docs[uri]

        def no_network(*a, **k):
            netlog.append(a)
            raise OSError("network is not available")

        schema = schema_for(d)
        kw = {}
        if cache_kind == "passthrough":
            from urllib.parse import urljoin
            kw = dict(urljoin_cache=urljoin)
        elif cache_kind == "tiny":
            from urllib.parse import urljoin
            kw = dict(urljoin_cache=lru_cache(1)(urljoin))
        r = RefResolver.from_schema(schema, id_of=cls.ID_OF, handlers={"http": handler}, cache_remote=cache_remote,
                                    store={"http://s.test/in-store.json": {"definitions": {"a": {"maximum": 300}}},
                                           "http://s.test/hash.json#": {"definitions": {"a": {"maximum": 3000}}}}, **kw)
        if cache_kind == "passthrough":
            r._remote_cache = r.resolve_from_url
        elif cache_kind == "tiny":
            r._remote_cache = lru_cache(1)(r.resolve_from_url)
        v = cls(schema, resolver=r)
        keys0 = sorted(r.store)
        saved_urlopen = validators.urlopen
        validators.urlopen = no_network
        tag = "clean"
        try:
            for i in range(n):
                key = pick(KEYS, keys[i])
                n0 = len(log)
                try:
                    if direct[i]:
                        url, resolved = r.resolve(schema["properties"][key]["$ref"])
                        got = "resolved"
                    else:
                        got = [e.validator for e in v.iter_errors({key: vals[i]})]
                except RefResolutionError:
                    got = "RRE"
                    tag = "fault-surfaced"
                except Exception as e:
                    raise HarnessEscape(type(e).__name__)
                if key in ("m", "n", "s", "t") and (len(log) != n0 or got == "RRE"):
                    return False, "metaschema-fetched"          # served locally, always
                if got == "RRE":
                    # only a handler failure may surface, and it must have happened during this operation
                    failed_now = False
                    for j in range(n0, len(log)):
                        if j < len(faults) and faults[j]:
                            failed_now = True
                    if not failed_now:
                        return False, "spurious-RRE"
                elif got != "resolved" and got != oracle(d, key, vals[i]):
                    return False, "wrong-verdict"
        finally:
            validators.urlopen = saved_urlopen
        if netlog:
            return False, "network-touched"
        good = [u for j, u in enumerate(log) if not (j < len(faults) and faults[j])]
        if cache_remote:
            for u in (DOC1, DOC2, DOC3):
                if len([g for g in good if g == u]) > 1:
                    return False, "fetched-twice"
        else:
            if sorted(r.store) != keys0:
                return False, "store-grew"
        return True, tag

    return Spec([("keys", List[int]), ("vals", List[int]), ("direct", List[bool]), ("cache_remote", bool), ("faults", List[bool]), ("exc_kind", int)],
                pre, body, tags=["clean", "fault-surfaced"])


def cube(d, n, cache_kind, first_key, exc=None, cache=None):
    spec = history(d, n, cache_kind)
    inner = spec.pre

    def pre(keys, vals, direct, cache_remote, faults, exc_kind):
        if exc is not None and exc_kind != exc:
            return False
        if cache is not None and cache_remote != cache:
            return False
        return inner(keys, vals, direct, cache_remote, faults, exc_kind) and keys[0] == first_key

    spec.pre = pre
    return spec


def conditions(tier, seed, active):
    import random
    out = []
    quick = tier == "quick"
    rng = random.Random(seed)
    for d in (3, 4, 6, 7):
        for ck in ("default", "passthrough", "tiny"):
            out.append(dict(id="history1/d%d/%s" % (d, ck), module=__name__, factory="history", params=dict(d=d, n=1, cache_kind=ck),
                            timeout=600, tags=["clean", "fault-surfaced"], witness=["clean", "fault-surfaced"] if d == 7 else []))
            for fk in range(len(KEYS)):
                if quick and not (d == 7 or (d == 4 and ck == "default")):
                    continue
                if quick and ck != "default" and fk % 3:
                    continue
                if quick and d == 4 and fk % 2:
                    continue
                if quick:
                    # quick: the exception class rotates with the first key (every class for every key in the thorough tier)
                    for cache in (True, False):
                        out.append(dict(id="history2/d%d/%s/first%d/exc%d/cache%d" % (d, ck, fk, fk % 4, cache), module=__name__, factory="cube",
                                        params=dict(d=d, n=2, cache_kind=ck, first_key=fk, exc=fk % 4, cache=cache), timeout=1200, tags=["clean"], witness=[]))
                else:
                    # thorough: every draft and cache configuration, two exception classes per first key (rotating over the four)
                    for exc in (fk % 4, (fk + 1) % 4):
                        for cache in (True, False):
                            out.append(dict(id="history2/d%d/%s/first%d/exc%d/cache%d" % (d, ck, fk, exc, cache), module=__name__, factory="cube",
                                            params=dict(d=d, n=2, cache_kind=ck, first_key=fk, exc=exc, cache=cache), timeout=2400, tags=["clean"], witness=[]))
            # (three-operation histories did not finish within 50 minutes as one tier and are not part of it)
    return out
