"""C01 -- verdicts agree with the specification (E1, differential against refmodel)."""
import random

from vf import gate, refmodel, templates as tp
from vf.harness import call

META = {
    "level": "model_checking",
    "explanation": "bounded symbolic execution of Draft{3,4,6,7}Validator(schema).is_valid(x) and of an independent "
                   "specification interpreter (vf/refmodel.py) on the same symbolic schema leaves and instance; the "
                   "postcondition compares the two verdicts on every feasible path",
    "bounds": {"strings": "<= L code points (any code point)", "containers": "<= N entries", "L,N": "2,2 quick; 3,3 for the thorough groups",
               "integers": "unbounded (SMT Int)", "nesting": "<= 2 applicators", "regexes": tp.REGEXES},
    "outside": ["floats (C09)", "$ref (C02)", "format (C12/C13)", "deep equality (C08)", "longer strings/containers", "other regexes"],
    "stubs": ["message formatting (repr/%/format of symbolic values) returns an opaque placeholder"],
    "assumptions": ["CrossHair's models of str/list/dict/int/re (listed subset) are faithful; each reachability witness is replayed in the plain interpreter",
                    "refmodel is the specification: gated on every in-domain case of the official test suite"],
}


def check(d, schema, x):
    got = call(tp.CLS[d](schema).is_valid, x)
    want = refmodel.valid(d, schema, x)
    return got == want, ("valid" if got else "invalid")


def single(name, draft, kind, L=2, N=2, N2=None, pair=None, tags=("valid", "invalid")):
    return tp.make_spec(name, draft, kind, check, L=L, N=N, N2=N2, pair=pair, tags=tags)


def preflight(tier):
    r = gate.run()
    return r["disagreements"] == 0 and r["cases"] > 1500, r


TWO_LEVEL = ("arr_arr_int", "arr_obj_int", "obj_arr_int", "obj_obj_int")
SPLIT = {"obj_int": ["obj_int#01", "obj_int#2"], "arr_scalar": ["arr_scalar#01", "arr_scalar#2"]}


def conditions(tier, seed, active):
    out = []
    rng = random.Random(seed)
    quick = tier == "quick"

    def cond(t, d, kind, pair=None, L=2, N=2, N2=None, tags=None, timeout=300):
        if tags is None:
            tags = t.tags_for(kind) if (pair is None and t.group != "T3") else ()
        cid = "%s/d%d/%s%s" % (t.name, d, kind, ("+" + pair) if pair else "")
        if (L, N, N2) != (2, 2, None):
            cid += "[L%d,N%d%s]" % (L, N, ",N2=%d" % N2 if N2 is not None else "")
        wit = list(tags) if (kind != "rest" and (not quick or rng.random() < 0.15)) else []
        out.append(dict(id=cid, module=__name__, factory="single",
                        params=dict(name=t.name, draft=d, kind=kind, pair=pair, L=L, N=N, N2=N2, tags=list(tags)),
                        timeout=timeout, tags=list(tags), witness=wit, wtimeout=60))

    for t in tp.TEMPLATES:
        heavy_draft = rng.choice(list(t.drafts))
        for d in t.drafts:
            if t.group == "T1":
                for k in t.kinds:
                    cond(t, d, k)
                if tp.rest_type(t.kinds) is not None and (not quick or t.name not in ("enum", "const", "type", "type_list")):
                    cond(t, d, "rest", tags=())
            elif t.group == "T2":
                for k in t.kinds:
                    for kk in SPLIT.get(k, [k]):
                        if quick and kk.endswith("#2") and d != heavy_draft:
                            continue        # the two-entry split of the object/array groups: one (seeded) draft in quick
                        cond(t, d, kk, timeout=900)
                if tp.rest_type(t.kinds) is not None and not (quick and t.name == "g_enum_type"):
                    cond(t, d, "rest", tags=(), timeout=600)
            elif t.group == "T3":
                k = t.kinds[0]
                if quick:
                    if rng.random() < 0.12:
                        if k in TWO_LEVEL:
                            cond(t, d, k, L=1, N=2, N2=1, timeout=600)
                        elif k == "obj_int":
                            cond(t, d, "obj_int#01", timeout=600)
                        else:
                            cond(t, d, k, timeout=600)
                else:
                    if k in TWO_LEVEL:
                        cond(t, d, k, L=2, N=2, N2=1, timeout=2400)
                    else:
                        cond(t, d, k, timeout=1800)
    # T4 pairs of arbitrary single-keyword templates
    pairs = tp.pair_names()
    if quick:
        pairs = rng.sample(pairs, 30)
    for a, b in pairs:
        ta, tb = tp.BY_NAME[a], tp.BY_NAME[b]
        ds = [d for d in ta.drafts if d in tb.drafts]
        if quick and ds:
            ds = [rng.choice(ds)]
        for d in ds:
            if tp.top_keys(a, d) & tp.top_keys(b, d):
                continue
            ks = [k for k in ta.kinds if k in tb.kinds]
            for k in ks[:1]:
                cond(ta, d, SPLIT.get(k, [k])[0] if quick else k, pair=b, timeout=900 if quick else 2400)
    return out
