"""C01 -- verdicts agree with the specification (E1, differential against refmodel)."""
import random

from vf import gate, refmodel, templates as tp
from vf.harness import call

META = {
    "level": "model_checking",
    "explanation": "bounded symbolic execution of Draft{3,4,6,7}Validator(schema).is_valid(x) and of an independent "
                   "specification interpreter (vf/refmodel.py) on the same symbolic schema leaves and instance; the "
                   "postcondition compares the two verdicts on every feasible path",
    "bounds": {"strings": "<= L code points (any code point)", "containers": "<= N entries", "L,N": "2,2 quick; 3,3 for the thorough groups",
               "integers": "unbounded (SMT Int)", "nesting": "<= 2 applicators", "regexes": tp.REGEXES},
    "outside": ["floats (C09)", "$ref (C02)", "format (C12/C13)", "deep equality (C08)", "longer strings/containers", "other regexes"],
    "stubs": ["message formatting (repr/%/format of symbolic values) returns an opaque placeholder"],
    "assumptions": ["CrossHair's models of str/list/dict/int/re (listed subset) are faithful; each reachability witness is replayed in the plain interpreter",
                    "refmodel is the specification: gated on every in-domain case of the official test suite"],
}


def check(d, schema, x):
    got = call(tp.CLS[d](schema).is_valid, x)
    want = refmodel.valid(d, schema, x)
    return got == want, ("valid" if got else "invalid")


def single(name, draft, kind, L=2, N=2, N2=None, pair=None, tags=("valid", "invalid")):
    return tp.make_spec(name, draft, kind, check, L=L, N=N, N2=N2, pair=pair, tags=tags)


def preflight(tier):
    r = gate.run()
    return r["disagreements"] == 0 and r["cases"] > 1500, r


def conditions(tier, seed, active):
    return tp.gen_conditions(__name__, "single", tier, seed, rate={"T3": 0.08}, pairs_quick=20)
