"""C19 -- CLI: exit status, diagnostics and per-instance processing follow the library (E1 on cli.run with a
symbolic file system)."""
import errno
import io
from typing import List

from jsonschema import cli, validators

from vf.harness import HarnessEscape, Spec, pick

META = {
    "level": "model_checking",
    "explanation": "bounded symbolic execution of jsonschema.cli.run: `open` as seen by the cli module and stdin are replaced by fakes whose "
                   "behaviour per path name is driven by symbolic state variables (missing / not JSON / valid / invalid with 1 or 2 errors); "
                   "Outputter.load, the instance loop, the formatters and _validate_instance are the real code; stdout/stderr are counting "
                   "writers; the exit status, the number of diagnostics and of success headers are compared with what the states imply and "
                   "with the library's own error count",
    "bounds": {"instances": "1..3 (quick) / 1..4 (thorough) per run, each in one of 6 states", "schema states": 4, "modes": "plain, pretty, "
               "custom --error-format, explicit --validator, --base-uri with a file reference, stdin"},
    "outside": ["the OS process boundary (python -m jsonschema; one concrete smoke run)", "argparse itself beyond parse_args' own rules"],
    "stubs": ["open() in jsonschema.cli, stdin, urlopen for --base-uri"],
    "assumptions": ["the state vectors are small discrete values, so this is close to an exhaustive enumeration of vectors up to the bound"],
}

SCHEMA_TEXT = {0: None, 1: "{not json", 2: '{"type": 12}', 3: '{"type": "integer", "maximum": 10}',
               4: '{"$ref": "defs.json#/definitions/small"}',
               5: '{"type": "integer", "maximum": 11, "exclusiveMaximum": true}',      # a Draft 4 schema that Draft 7's metaschema rejects
               6: '{"$schema": "http://json-schema.org/draft-07/schema#", "type": "integer", "maximum": 11, "exclusiveMaximum": true}'}
DEFS_TEXT = '{"definitions": {"small": {"type": "integer", "maximum": 10}}}'
# instance states: 0 missing, 1 not JSON, 2 valid, 3 one error, 4 two errors
INSTANCE_TEXT = {0: None, 1: "[1,", 2: "3", 3: "12", 4: "12.5", 5: "null"}
NERR = {0: 1, 1: 1, 2: 0, 3: 1, 4: 2, 5: 1}


class Counter:
    def __init__(self):
        self.n = 0
        self.chunks = []

    def write(self, s):
        if len(s) > 0:              # writing the empty string writes nothing
            self.n += 1
            self.chunks.append(s)


def fake_open_factory(schema_state, states):
    def fake_open(path, *a, **k):
        if path == "schema.json":
            text = SCHEMA_TEXT[schema_state]
        else:
            text = INSTANCE_TEXT[states[int(path[1:])]]
        if text is None:
            raise FileNotFoundError(errno.ENOENT, "No such file or directory", path)
        return io.StringIO(text)
    return fake_open


class FakeResponse:
    def __init__(self, text):
        self.text = text

    def read(self):
        return self.text.encode("utf-8")

    def __enter__(self):
        return self

    def __exit__(self, *a):
        return False


def run_cli(schema_state, states, pretty, custom_format, explicit_validator, use_stdin):
    out, err = Counter(), Counter()
    n = len(states)
    names = ["i%d" % i for i in range(n)]
    args = {"schema": "schema.json", "instances": [] if use_stdin else names, "output": "pretty" if pretty else "plain",
            "error_format": None if pretty else ("<{error.validator}>" if custom_format else "{error.instance}: {error.message}\n"),
            "validator": validators.Draft4Validator if explicit_validator else None,
            "base_uri": "file:///work/" if schema_state == 4 else None}
    saved_open = cli.__dict__.get("open")
    saved_urlopen = validators.urlopen
    cli.open = fake_open_factory(schema_state, states)
    validators.urlopen = lambda uri: FakeResponse(DEFS_TEXT)
    stdin = io.StringIO(INSTANCE_TEXT[states[0]] or "") if use_stdin else None
    try:
        code = cli.run(args, out, err, stdin)
    except Exception as e:
        raise HarnessEscape(type(e).__name__)
    finally:
        if saved_open is None:
            del cli.open
        else:
            cli.open = saved_open
        validators.urlopen = saved_urlopen
    return code, out, err


def expected(schema_state, states, pretty, use_stdin):
    if schema_state in (0, 1, 2):
        return 1, 0, 1
    # (schema 5 behaves like schema 3 for the catalogue instances: 3 valid, 12 and 12.5 invalid with 1 and 2 errors)
    sts = list(states)
    if use_stdin:
        sts = sts[:1]
        if sts[0] == 0:
            sts = [1]                # empty stdin is unparsable
    code = 0
    nerr = 0
    nok = 0
    for s in sts:
        nerr += NERR[s]
        if s != 2:
            code = 1
        else:
            nok += 1
    return code, (nok if pretty else 0), nerr


def run(schema_state, n, pretty, mode="plain"):
    custom = mode == "custom-format"
    explicit = mode in ("explicit-validator", "explicit-validator-d4-schema", "explicit-validator-other-dialect")
    use_stdin = mode == "stdin"

    def pre(states):
        if len(states) != n:
            return False
        for s in states:
            if not (0 <= s < 6):
                return False
        return True

    def body(states):
        code, out, err = run_cli(schema_state, states, pretty, custom, explicit, use_stdin)
        wcode, wout, werr = expected(schema_state, states, pretty, use_stdin)
        ok = (code == 0) == (wcode == 0) and out.n == wout and err.n == werr
        if ok and schema_state >= 3 and not use_stdin:
            # the library's own count for each readable instance
            import json
            cls = validators.Draft4Validator if explicit else validators.Draft7Validator
            lib = 0
            for s in states:
                if s >= 2:
                    lib_schema = json.loads(SCHEMA_TEXT[schema_state]) if schema_state in (5, 6) else {"type": "integer", "maximum": 10}
                    lib += len(list(cls(lib_schema).iter_errors(json.loads(INSTANCE_TEXT[s]))))
                else:
                    lib += 1
            ok = err.n == lib
        if ok and custom and not pretty:
            from vf.harness import Opaque
            for ch in err.chunks:
                if isinstance(ch, Opaque):
                    continue                      # formatted under symbolic execution: text is stubbed
                if schema_state >= 3 and ch[:1] == "<" and ch not in ("<type>", "<maximum>"):
                    ok = False
        return ok, ("exit0" if code == 0 else "exit1")

    tags = ["exit1"] if (schema_state < 3 or n == 0 and use_stdin) else ["exit0", "exit1"]
    if n == 0 and not use_stdin and schema_state >= 3:
        tags = ["exit0"]
    return Spec([("states", List[int])], pre, body, tags=tags)


def parse_rules():
    """parse_args' own rules: --error-format only with plain; default format filled in for plain"""
    def pre(pretty, with_format):
        return True

    def body(pretty, with_format):
        argv = ["schema.json", "-i", "a"] + (["--output", "pretty"] if pretty else []) + (["--error-format", "x"] if with_format else [])
        try:
            a = cli.parse_args(argv)
        except SystemExit:
            return pretty and with_format, "usage-error"
        except Exception as e:
            raise HarnessEscape(type(e).__name__)
        if pretty and with_format:
            return False, "parsed"
        if not pretty and not with_format and a["error_format"] is None:
            return False, "parsed"
        return a["instances"] == ["a"] and a["schema"] == "schema.json", "parsed"

    return Spec([("pretty", bool), ("with_format", bool)], pre, body, tags=["parsed", "usage-error"])


def conditions(tier, seed, active):
    out = []
    nmax = 3 if tier == "quick" else 4          # 6 states per instance: 6**4 = 1296 state vectors per condition at most
    for ss in (0, 1, 2, 3, 4):
        for pretty in (False, True):
            for n in range(1, nmax + 1):
                if ss < 3 and n > 1:
                    continue
                tags = ["exit1"] if ss < 3 else ["exit0", "exit1"]
                out.append(dict(id="run/schema%d/%s/n%d" % (ss, "pretty" if pretty else "plain", n), module=__name__, factory="run",
                                params=dict(schema_state=ss, n=n, pretty=pretty), timeout=900 if n <= 3 else 3000, tags=tags, witness=tags if n <= 2 else []))
    for mode in ("custom-format", "explicit-validator", "stdin", "explicit-validator-d4-schema", "explicit-validator-other-dialect"):
        for n in ((1, 2) if mode != "stdin" else (1,)):
            tags = ["exit0", "exit1"]
            out.append(dict(id="run/%s/n%d" % (mode, n), module=__name__, factory="run",
                            params=dict(schema_state=5 if mode.endswith("d4-schema") else (6 if mode.endswith("other-dialect") else 3), n=n, pretty=False, mode=mode), timeout=600,
                            tags=tags, witness=tags))
    out.append(dict(id="parse_args", module=__name__, factory="parse_rules", params={}, timeout=300, tags=["parsed", "usage-error"], witness=["parsed"]))
    return out
