"""C17 -- an ErrorTree can always be built and contains every error where its path says (E1)."""
from typing import Dict, List

from jsonschema import ErrorTree

from vf import templates as tp
from vf.harness import HarnessEscape, Spec, call, small

META = {
    "level": "model_checking",
    "explanation": "bounded symbolic execution of iter_errors followed by ErrorTree(errors) where the order of arrival is a symbolic "
                   "permutation (Lehmer code) of the error list; the tree is then walked along every error's path and compared with "
                   "what the error list itself implies (children, membership, totals, empty subtrees)",
    "bounds": {"instances": "objects/arrays <= 2 entries (3 for flat arrays); object keys from the catalogue ('', a, b, c, ab, ca) because ErrorTree hashes path elements natively; integer values unbounded", "errors": "<= 5 per collection",
               "permutation": "orders of arrival as concrete Lehmer codes over the first three positions: all 24 in the thorough tier, identity, reverse and two seeded ones in quick"},
    "outside": ["trees on which error-free elements were looked up before (documented quirk)", "deeper paths than 2"],
    "stubs": ["message formatting"],
    "assumptions": ["CrossHair's models of dict/defaultdict/deque on symbolic keys"],
}

SCHEMAS = {
    # name: (draft, instance kind, schema builder from int holes (m, n))
    "obj_pattern": (7, "obj_int", lambda m, n: {"patternProperties": {"^a": {"maximum": m}, "a$": {"maximum": m, "multipleOf": 2}},
                                                "additionalProperties": {"minimum": n}, "maxProperties": 1}),
    "arr_items": (7, "arr_int", lambda m, n: {"items": {"maximum": m, "minimum": n}, "maxItems": 1, "contains": {"const": 7}}),
    "arr_tuple": (4, "arr_int", lambda m, n: {"items": [{"maximum": m}, {"minimum": n, "enum": [1, 2]}], "additionalItems": False, "minItems": 3}),
    "d3_required": (3, "obj_int", lambda m, n: {"additionalProperties": False,
                                                "properties": {"a": {"required": True}, "b": {"maximum": m}, "": {"required": True}}}),
    "d3_required_order2": (3, "obj_int", lambda m, n: {"properties": {"a": {"required": True, "maximum": m}, "b": {"required": True}},
                                                        "additionalProperties": False, "patternProperties": {"^c": {"minimum": n}}}),
    "required_many": (7, "obj_int", lambda m, n: {"required": ["a", "b", ""], "minProperties": 2, "properties": {"a": {"maximum": m}},
                                                  "dependencies": {"a": ["b", "c"]}}),
    "property_names": (7, "obj_int", lambda m, n: {"propertyNames": {"maxLength": 1, "pattern": "^a"}, "additionalProperties": {"maximum": m}}),
    "same_path_same_keyword": (7, "obj_int", lambda m, n: {"allOf": [{"additionalProperties": {"maximum": m}}, {"additionalProperties": {"maximum": n}}],
                                                           "anyOf": [{"maxProperties": 0}, {"required": ["a"]}]}),
    "names_and_deep": (7, "wrapped_obj", lambda m, n: {"propertyNames": {"maxLength": 0}, "properties": {"a": {"properties": {"b": {"maximum": m}},
                                                                                                       "additionalProperties": {"minimum": n}}}}),
    "deep_then_names": (6, "wrapped_obj", lambda m, n: {"additionalProperties": {"additionalProperties": {"maximum": m}}, "propertyNames": {"pattern": "^b"}}),
    "dotted_names": (7, "wrapped_dotted", lambda m, n: {"properties": {"a": {"additionalProperties": {"maximum": m}, "items": {"maximum": m}},
                                                                       "a.b": {"maximum": n}, "a[0]": {"minimum": n}}}),
    "nested_arr": (7, "arr_arr_int", lambda m, n: {"items": {"items": {"maximum": m}, "maxItems": 1}, "maxItems": 1}),
    "nested_obj_arr": (6, "obj_arr_int", lambda m, n: {"additionalProperties": {"items": {"maximum": m}, "minItems": 2}, "required": ["a"]}),
}


def permute(errs, code):
    """apply a Lehmer code to the order of arrival"""
    out = []
    rest = list(errs)
    for c in code:
        if not rest:
            break
        i = c % len(rest) if len(rest) else 0
        out.append(rest.pop(i))
    return out + rest


def starts_with(path, prefix):
    if len(path) < len(prefix):
        return False
    for a, b in zip(path, prefix):
        if type(a) is not type(b) or a != b:
            return False
    return True


def contains(lst, x):
    for y in lst:
        if type(x) is type(y) and x == y:
            return True
    return False


def tree_ok(instance, errs, exclude=()):
    try:
        t = ErrorTree(errs)
    except Exception as e:
        raise HarnessEscape("ErrorTree:" + type(e).__name__)
    paths = [list(e.path) for e in errs]
    pairs = []
    for e, p in zip(errs, paths):
        key = p + ["#" + str(e.validator)]
        if not contains_path(pairs, key):
            pairs.append(key)
    if t.total_errors != len(pairs) or len(t) != len(pairs):
        return False
    # every prefix of every error path is a node; its children are exactly the next elements with errors beneath
    prefixes = [[]]
    for p in paths:
        for i in range(1, len(p) + 1):
            if not contains_path(prefixes, p[:i]):
                prefixes.append(p[:i])
    for pre in prefixes:
        node = t
        for q in pre:
            if q not in node:           # membership must report it (fresh tree)
                return False
            node = call(node.__getitem__, q)
        want = []
        for p in paths:
            if len(p) > len(pre) and starts_with(p, pre) and not contains(want, p[len(pre)]):
                want.append(p[len(pre)])
        got = list(node)
        if len(got) != len(want):
            return False
        for w in want:
            if not contains(got, w) or w not in node:
                return False
        here = [e for e, p in zip(errs, paths) if len(p) == len(pre) and starts_with(p, pre)]
        kws = []
        for e in here:
            if e.validator not in node.errors:
                return False
            if list(node.errors[e.validator].path) != pre:
                return False
            if e.validator not in kws:
                kws.append(e.validator)
        if len(node.errors) != len(kws):
            return False
    # an element that exists in the instance but has no errors gives an empty tree (checked last: it inserts a child)
    if "F9" in exclude and KNOWN["F9"](errs):
        return True
    if isinstance(instance, dict):
        for k in instance:
            if k not in t:
                sub = call(t.__getitem__, k)
                if sub.total_errors != 0 or len(sub.errors) != 0:
                    return False
    elif isinstance(instance, list):
        for i in range(len(instance)):
            if i not in t:
                sub = call(t.__getitem__, i)
                if sub.total_errors != 0 or len(sub.errors) != 0:
                    return False
    return True


def via_property_names(errs):
    """F9: a propertyNames error records the property *name* as its instance, which the tree then takes for the node's instance"""
    for e in errs:
        if "propertyNames" in list(e.schema_path):
            return True
    return False


KNOWN = {"F9": via_property_names}


def contains_path(lst, p):
    for q in lst:
        if len(q) == len(p) and starts_with(q, p):
            return True
    return False


from vf.harness import KIND_TYPES  # noqa: E402


def tree(name, L=1, N=2, code=(0, 0, 0), exclude=()):
    """`code` (concrete Lehmer code, cube-and-conquer on the order of arrival) permutes the error list"""
    draft, kind, mk = SCHEMAS[name]

    def pre(x, m, n):
        if not small(x, L, N, 2):
            return False
        if isinstance(x, dict):
            # ErrorTree files children in a native dict keyed by path elements: a symbolic key would be hashed
            # natively (DESIGN 2.1), so object keys (at both levels) range over a concrete catalogue here
            for k in x:
                if k not in KEYS:
                    return False
                v = x[k]
                if isinstance(v, dict):
                    if len(v) > 1:
                        return False
                    for k2 in v:
                        if k2 not in KEYS:
                            return False
        return True

    def body(x, m, n):
        if kind == "wrapped_dotted":
            # "a.b" / "a[0]" render to the same json_path as the nested locations ["a","b"] / ["a",0]
            x = {"a": x, "a.b": n + 1, "a[0]": n - 1}
        if kind == "wrapped_obj":
            # one symbolic object under concrete outer keys (two symbolic levels do not finish): {"a": x, "b": {...}}
            x = {"a": x, "b": {"a": m}} if len(x) < 2 else {"a": x}
        v = tp.CLS[draft](mk(m, n))
        errs = call(lambda: list(v.iter_errors(x)))
        if len(errs) > 5:
            return True, "too-many"
        errs = permute(errs, list(code))
        ok = tree_ok(x, errs, exclude)
        return ok, ("errors%d" % min(len(errs), 2))

    T = KIND_TYPES["obj_int"] if kind in ("wrapped_obj", "wrapped_dotted") else KIND_TYPES[kind]
    return Spec([("x", T), ("m", int), ("n", int)], pre, body, tags=TAGS.get(name, ["errors0", "errors2"]))


KEYS = ("", "a", "b", "c", "ab", "ca")
TAGS = {"dotted_names": ["errors2"], "names_and_deep": ["errors2"], "deep_then_names": ["errors2"], "d3_required": ["errors2"], "d3_required_order2": ["errors2"], "required_many": ["errors2"], "arr_tuple": ["errors2"]}


def conditions(tier, seed, active):
    import itertools
    import random
    out = []
    quick = tier == "quick"
    rng = random.Random(seed)
    codes = list(itertools.product(range(4), range(3), range(2)))
    for name, (d, kind, _) in SCHEMAS.items():
        tags = TAGS.get(name, ["errors0", "errors2"])
        if quick:
            chosen = [(0, 0, 0), (3, 2, 1)] + rng.sample(codes[1:-1], 1)
            variants = [dict(L=1, N=2, code=list(c)) for c in chosen]
        else:
            variants = [dict(L=1, N=2, code=list(c)) for c in codes] + [dict(L=2, N=2, code=[0, 0, 0]), dict(L=2, N=2, code=[3, 2, 1])]
            if kind == "arr_int":
                variants += [dict(L=1, N=3, code=list(c)) for c in ((0, 0, 0), (3, 2, 1), (1, 1, 1), (2, 0, 1))]
        for i, v in enumerate(variants):
            cid = "%s/L%d,N%d,order%s" % (name, v["L"], v["N"], "".join(map(str, v["code"])))
            out.append(dict(id=cid, module=__name__, factory="tree", params=dict(name=name, exclude=list(active), **v),
                            timeout=600 if quick else 2400, tags=tags, witness=tags if i == 0 else []))
    return out
