"""C20 -- the draft is chosen from $schema, consistently in validate(), CLI and helpers (E1)."""
import io
import warnings
from typing import Dict

import jsonschema
from jsonschema import cli, validators

from vf import templates as tp
from vf.harness import HarnessEscape, KIND_TYPES, Spec, pick, small

META = {
    "level": "model_checking",
    "explanation": "bounded symbolic execution of validator_for / jsonschema.validate / cli.run over $schema spellings generated from the live "
                   "registry (each registered id with and without '#', unknown URIs, non-URI strings, absent, boolean schema), on "
                   "disagreement templates with symbolic leaves and instances; plus bounded registration histories (validates(), "
                   "create(version=...)) with snapshot/restore of the global registries",
    "bounds": {"spellings": "concrete catalogue from meta_schemas", "instances": "symbolic ints / small objects", "registrations": "<= 2 additional"},
    "outside": ["integer-valued floats as symbolic values (concrete 3.0 only)", "symbolic $schema strings (URIDict hashes them)"],
    "stubs": ["message formatting", "open() in jsonschema.cli"],
    "assumptions": ["CrossHair's library models"],
}
IDS = {3: "http://json-schema.org/draft-03/schema", 4: "http://json-schema.org/draft-04/schema",
       6: "http://json-schema.org/draft-06/schema", 7: "http://json-schema.org/draft-07/schema"}


def spellings():
    out = []
    for d, u in IDS.items():
        out.append((u + "#", d, False))
        out.append((u, d, False))
    out.append(("http://example.com/unknown", 7, True))
    out.append(("not a uri", 7, True))
    out.append(("http://json-schema.org/draft-04/schema#/", 7, True))
    out.append((None, 7, False))
    return out


# templates on which drafts disagree: (name, builder from int hole, expected-validity function per draft)
def disagreement(name, a):
    if name == "excl_bool":
        return {"minimum": a, "exclusiveMinimum": True}
    if name == "excl_num":
        return {"exclusiveMinimum": a}
    if name == "const":
        return {"const": a}
    if name == "if":
        return {"if": {"maximum": a}, "then": False}
    if name == "bool_sub":
        return {"properties": {"k": False}, "extends": {"maximum": a}}
    if name == "id_ref":
        return {"id": "http://x.test/r.json", "$id": "http://x.test/r.json", "definitions": {"n": {"minimum": a}},
                "properties": {"k": {"$ref": "r.json#/definitions/n"}}}
    if name == "float_int":
        return {"type": "integer", "divisibleBy": 2, "multipleOf": 3}
    raise ValueError(name)


NAMES = ["excl_bool", "excl_num", "const", "if", "float_int"]
CLI_NAMES = NAMES + ["id_ref"]


def select(name, kind="int"):
    sp = spellings()

    def pre(x, a, si):
        return 0 <= si < len(sp) and small(x, 1, 1)

    def body(x, a, si):
        uri, d, warns = pick(sp, si)
        schema = disagreement(name, a)
        if name == "id_ref":
            del schema["$id" if d in (3, 4) else "id"]
        if uri is not None:
            schema["$schema"] = uri
        with warnings.catch_warnings(record=True) as w:
            warnings.simplefilter("always")
            try:
                cls = validators.validator_for(schema)
            except Exception as e:
                raise HarnessEscape(type(e).__name__)
        dep = [m for m in w if issubclass(m.category, DeprecationWarning)]
        if cls is not tp.CLS[d]:
            return False, "d%d" % d
        if warns and len(dep) != 1:
            return False, "d%d" % d
        if not warns and len(dep) != 0:
            return False, "d%d" % d
        # behaviour after dispatch = the selected class's own
        try:
            cls.check_schema(schema)
            ok_schema = True
        except jsonschema.SchemaError:
            ok_schema = False
        except Exception as e:
            raise HarnessEscape(type(e).__name__)
        with warnings.catch_warnings():
            warnings.simplefilter("ignore")
            try:
                jsonschema.validate(x, schema)
                got = "valid"
            except jsonschema.ValidationError:
                got = "invalid"
            except jsonschema.SchemaError:
                got = "bad-schema"
            except Exception as e:
                raise HarnessEscape(type(e).__name__)
        if not ok_schema:
            return got == "bad-schema", "d%d" % d
        want = "valid" if next(tp.CLS[d](schema).iter_errors(x), None) is None else "invalid"
        if got != want:
            return False, "d%d" % d
        # an explicitly given class always wins
        for od in ((3, 7) if name != "id_ref" else ()):     # (with the other draft's class the id_ref schema legitimately cannot resolve its reference)
            try:
                tp.CLS[od].check_schema(schema)
            except jsonschema.SchemaError:
                continue
            try:
                jsonschema.validate(x, schema, cls=tp.CLS[od])
                g2 = True
            except jsonschema.ValidationError:
                g2 = False
            except Exception as e:
                raise HarnessEscape(type(e).__name__)
            if g2 != (next(tp.CLS[od](schema).iter_errors(x), None) is None):
                return False, "d%d" % d
        return True, "d%d" % d

    T = int if kind == "int" else KIND_TYPES["obj_int"]
    return Spec([("x", T), ("a", int), ("si", int)], pre, body, tags=["d3", "d4", "d6", "d7"])


def defaults():
    """missing $schema / boolean schema -> the default (latest, or the one the caller passes)"""
    def pre(b, which):
        return 0 <= which < 3

    def body(b, which):
        schema = pick([b, {}, {"type": "integer"}], which)
        ok = validators.validator_for(schema) is tp.CLS[7]
        ok = ok and validators.validator_for(schema, default=tp.CLS[3]) is tp.CLS[3]
        ok = ok and validators.validator_for(schema, default=None) is None
        return ok, "default"

    return Spec([("b", bool), ("which", int)], pre, body, tags=["default"])


INSTANCES = ["null", "5", "6", "4", "6.0", "true", '{"k": 4}', '{"k": 6}']


def cli_selects(name):
    """the CLI selects the same class as validator_for (schema and instance travel through the fake files as text, so
    they are concrete; the spelling and the instance are chosen by symbolic indices)"""
    import json
    sp = [s for s in spellings() if not s[2]]

    def pre(xi, si):
        return 0 <= si < len(sp) and 0 <= xi < len(INSTANCES)

    def body(xi, si):
        uri, d, _ = pick(sp, si)
        xt = pick(INSTANCES, xi)
        schema = disagreement(name, 5)
        if name == "id_ref":
            del schema["$id" if d in (3, 4) else "id"]      # only the selected draft's own id keyword
        if uri is not None:
            schema["$schema"] = uri
        text = json.dumps(schema)

        class C:
            def __init__(self):
                self.n = 0

            def write(self, s):
                if len(s):
                    self.n += 1
        out, err = C(), C()

        def fake_open(path, *a_, **k):
            return io.StringIO(text if path == "s" else xt)
        saved = cli.__dict__.get("open")
        cli.open = fake_open
        try:
            code = cli.run({"schema": "s", "instances": ["i"], "output": "plain", "error_format": "e", "validator": None, "base_uri": None}, out, err, None)
        except Exception as e:
            raise HarnessEscape(type(e).__name__)
        finally:
            if saved is None:
                del cli.open
            else:
                cli.open = saved
        cls = tp.CLS[d]
        try:
            cls.check_schema(schema)
            want_errs = len(list(cls(schema).iter_errors(json.loads(xt))))
        except jsonschema.SchemaError:
            want_errs = 1
        return err.n == want_errs and (code == 0) == (want_errs == 0), "d%d" % d

    return Spec([("xi", int), ("si", int)], pre, body, tags=["d3", "d4", "d6", "d7"])


def registration(n_ops=1):
    """later registrations become selectable by their own id and leave the existing ones as they were"""
    def pre(x, ops):
        return len(ops) == n_ops and all(0 <= o < 3 for o in ops)

    def body(x, ops):
        snap_v = dict(validators.validators)
        snap_m = dict(validators.meta_schemas.store)
        try:
            made = []
            with warnings.catch_warnings():
                warnings.simplefilter("ignore")
                for i in range(len(ops)):            # dispatch on the ids before anything is registered for them (both spellings)
                    for spelling in ("http://example.test/meta-%d" % i, "http://example.test/meta-%d#" % i):
                        if validators.validator_for({"$schema": spelling}) is not tp.CLS[7]:
                            return False, "ok"
            for i, o in enumerate(ops):
                mid = "http://example.test/meta-%d" % i
                if o == 0:
                    cls = validators.create({"$id": mid, "type": "object"}, validators={"maximum": tp.CLS[7].VALIDATORS["minimum"]}, version="x%d" % i)
                elif o == 1:
                    cls = validators.extend(tp.CLS[4], version="y%d" % i)          # same metaschema id as Draft 4: re-registers that id
                    mid = IDS[4]
                else:
                    cls = validators.validates("z%d" % i)(validators.create({"$id": mid + "#"}, validators={}))
                made.append((mid, cls))
            ok = True
            latest = {}
            for mid, cls in made:
                latest[mid] = cls
            for mid, cls in latest.items():
                ok = ok and validators.validator_for({"$schema": mid}) is cls and validators.validator_for({"$schema": mid + "#"}) is cls
            for d in (3, 6, 7):
                ok = ok and validators.validator_for({"$schema": IDS[d] + "#"}) is tp.CLS[d]
            if IDS[4] not in latest:
                ok = ok and validators.validator_for({"$schema": IDS[4]}) is tp.CLS[4]
            # behaviour of an inverted 'maximum' registered under o == 0
            for mid, cls in made:
                if mid.startswith("http://example.test/meta-") and "maximum" in cls.VALIDATORS and len(cls.VALIDATORS) == 1:
                    try:
                        jsonschema.validate({"k": x}, {"$schema": mid, "maximum": 1})
                    except Exception as e:
                        raise HarnessEscape(type(e).__name__)
            return ok, "ok"
        finally:
            validators.validators.clear()
            validators.validators.update(snap_v)
            validators.meta_schemas.store.clear()
            validators.meta_schemas.store.update(snap_m)

    from typing import List
    return Spec([("x", int), ("ops", List[int])], pre, body, tags=["ok"])


def conditions(tier, seed, active):
    out = []

    def c(cid, factory, params, tags, timeout=600):
        out.append(dict(id=cid, module=__name__, factory=factory, params=params, timeout=timeout, tags=tags, witness=tags[:2]))

    for name in NAMES:
        c("select/%s/int" % name, "select", dict(name=name), ["d3", "d4", "d6", "d7"])
    for name in CLI_NAMES:
        c("cli/%s" % name, "cli_selects", dict(name=name), ["d3", "d4", "d6", "d7"])
    c("select/id_ref/obj", "select", dict(name="id_ref", kind="obj"), ["d3", "d4", "d6", "d7"])
    c("select/bool_sub/obj", "select", dict(name="bool_sub", kind="obj"), ["d3", "d4", "d6", "d7"])
    c("defaults", "defaults", {}, ["default"])
    for n in ((1, 2) if tier == "quick" else (1, 2, 3)):
        c("registration/%d" % n, "registration", dict(n_ops=n), ["ok"])
    return out
