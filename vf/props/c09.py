"""C09 -- numeric keywords exact for numbers of any magnitude and never raising.

E2 (numkern): the current source of the functions bound to minimum/maximum/exclusive*/multipleOf/divisibleBy in the
four real VALIDATORS tables is translated to SMT and compared with an independent exact specification
(bit-vector arithmetic on the IEEE fields); E1 (CrossHair): the same keywords on unbounded mathematical integers.
"""
import json
import os
import time

from vf import templates as tp
from vf.props import c01

META = {
    "level": "other",
    "explanation": "SMT queries (cvc5 1.0.3 for floating point, z3 5.1.0 otherwise) over an encoding generated at run time from "
                   "the source of the numeric keyword functions of /repo; each query asks for operands on which the code's verdict "
                   "differs from the exact mathematical one, or on which it raises; unsat = holds for every operand of the kind "
                   "pair; plus CrossHair conditions on unbounded integers",
    "bounds": {"int64": "|i| < 2**63 (bit-vector)", "big": "|i| >= 2**1024 (SMT Int)", "float": "all finite binary64 incl. subnormals, -0.0",
               "multipleOf exact sub-domain": ["float / power-of-two float, no underflow, incl. overflow to inf",
                                               "int (<= 2**53) / power-of-two float",
                                               "float / float whenever the quotient is exactly representable",
                                               "int / int: unbounded, in E1"]},
    "outside": ["mixed int/float operations with 2**63 <= |i| < 2**1024", "NaN and infinities (not JSON)",
                "the verdict of float % int (fp.rem on binary64: unknown after 900 s in both solvers); only its exception freedom is decided"],
    "stubs": ["Fraction(a)/Fraction(b).denominator != 1 is modelled as the exact predicate 'a/b is not an integer' (Fraction is exact by construction)",
              "validator.is_type: the real TYPE_CHECKER is consulted on a representative of each kind"],
    "assumptions": ["numkern's model of Python's operators on int/float (validated concretely against the interpreter on the official "
                    "suite's numeric cases and a corner grid on every run)"],
}


def conditions(tier, seed, active):
    out = []
    names = ["minimum", "maximum", "exclusiveMinimum", "exclusiveMaximum", "multipleOf", "g_min_excl_bool", "g_max_excl_bool",
             "g_minmax_excl_bool", "g_minmax_excl_num"]
    for n in names:
        t = tp.BY_NAME[n]
        for d in t.drafts:
            out.append(dict(id="ints/%s/d%d" % (n, d), module="vf.props.c01", factory="single",
                            params=dict(name=n, draft=d, kind="int"), timeout=120, tags=["valid", "invalid"],
                            witness=["valid", "invalid"]))
    return out


def extra(tier, seed, ctx, only_family=None):
    from vf import numq, numkern as nk
    t0 = time.time()
    problems, violations, samples = [], [], []
    tv = numq.validate_translator()
    if tv["disagreements"] or tv["cases"] < 1000:
        problems.append("translator validation failed: %s" % json.dumps(tv["disagreements"][:5]))
    try:
        qs, notes = numq.build_queries(tier)
    except nk.Unsupported as e:
        return dict(problems=["numkern cannot translate the current source: %s" % e], violations=[], coverage={})
    if only_family:
        qs = [q for q in qs if only_family in q.family]
    res = numq.run_queries(qs, jobs=ctx["jobs"], cross_check=(tier == "thorough"))
    n_claims = n_ok = n_wit = 0
    fam = {}
    cex_n = 0
    for q in qs:
        r = res[q.qid]
        if q.role == "witness":
            n_wit += 1
            if r["result"] != "sat":
                problems.append("%s: reachability witness is %s (vacuous query family?)" % (q.qid, r["result"]))
            continue
        n_claims += 1
        f = fam.setdefault(q.family, {"queries": 0, "unsat": 0, "max_s": 0.0})
        f["queries"] += 1
        f["max_s"] = max(f["max_s"], r["seconds"])
        cross = r.get("cross")
        if cross and cross["result"] not in ("unknown", r["result"]):
            problems.append("%s: solvers disagree (%s: %s, %s: %s)" % (q.qid, r["backend"], r["result"], cross["backend"], cross["result"]))
            continue
        if r["result"] == "unsat":
            n_ok += 1
            f["unsat"] += 1
        elif r["result"] == "sat":
            vals = r.get("values")
            if not vals:
                problems.append("%s: sat but no model values" % q.qid)
                continue
            cex_n += 1
            doc = dict(q.replay)
            enc = lambda v: {"int": str(v)} if isinstance(v, int) and abs(v) >= 2 ** 63 else v   # noqa: E731
            doc.update(property=ctx["prop"], engine="E2", query=q.qid, instance=enc(vals["instance"]),
                       schema={doc["keyword"]: enc(vals["operand"])})
            if doc.get("flag") and vals.get("exclusive") is not None:
                doc["schema"][doc["flag"]] = vals["exclusive"]
                doc["exclusive"] = vals["exclusive"]
            if doc["keyword"].startswith("exclusive"):
                doc["exclusive"] = True
            rp = os.path.join(ctx["replay_dir"], "%s-e2-%d.json" % (ctx["prop"], cex_n))
            json.dump(doc, open(rp, "w"), indent=1)
            out = nk.replay(json.load(open(rp)))
            if out["status"] == "violated":
                violations.append((q.qid, rp, out["detail"]))
            else:
                problems.append("%s: model does not replay on the real code (%s): %s" % (q.qid, out["status"], json.dumps(vals, default=str)[:300]))
        else:
            problems.append("%s: solver answered %s after %.0fs (%s)" % (q.qid, r["result"], r["seconds"], r.get("error", "")))
    for q in qs[:6]:
        samples.append({"query": q.qid, "expects": q.expect, "result": res[q.qid]["result"], "seconds": res[q.qid]["seconds"]})
    cov = {
        "e2_queries": len(qs), "e2_claim_queries": n_claims, "e2_unsat": n_ok, "e2_reachability_witnesses": n_wit,
        "e2_families": fam, "e2_functions_translated": sorted(notes["functions"]),
        "e2_translator_validation": {"concrete_cases_through_real_code_and_encoding": tv["cases"], "disagreements": len(tv["disagreements"])},
        "e2_solver_seconds": round(sum(r["seconds"] for r in res.values()), 1),
        "e2_cross_checked": sum(1 for r in res.values() if r.get("cross")),
        "e2_wall_s": round(time.time() - t0, 1),
    }
    return dict(problems=problems, violations=violations, coverage=cov, obligations=n_claims, discharged=n_ok,
                evaluations=len(qs), nontrivial=n_ok, samples=samples, validated=tv["cases"])
