"""C11 -- check_schema accepts exactly what the draft's bundled metaschema allows (E1, differential against
refmodel applied to the same metaschema file)."""
import random
from typing import List

from jsonschema import SchemaError

from vf import cand, gate, refmodel, templates as tp
from vf.harness import HarnessEscape, Scalar, Spec, pick, small

META = {
    "level": "model_checking",
    "explanation": "bounded symbolic execution of DraftNValidator.check_schema on candidates {K: v} (K: every property name of the bundled "
                   "metaschema, read from the file at run time, plus an undeclared one; v: symbolic value of every JSON kind, concrete "
                   "floats and small concrete subschemas by symbolic index), at the root and in subschema positions, compared on every "
                   "path with an independent evaluator applied to the same metaschema file ($ref '#', definitions, dependencies, type "
                   "unions, Draft 3 extends)",
    "bounds": {"strings": "<= 2 code points", "containers": "<= 2 entries", "integers": "unbounded", "floats": cand.FLOATS,
               "subschemas": "concrete catalogue of %d small valid/invalid schemas" % len(cand.SUBSCHEMAS)},
    "outside": ["keyword values deeper than two levels", "format (not enforced by check_schema)"],
    "stubs": ["message formatting"],
    "assumptions": ["refmodel is gated on the official test suite", "CrossHair's library models"],
}


def verdict(d, candidate):
    cls = tp.CLS[d]
    try:
        cls.check_schema(candidate)
        return "accepted"
    except SchemaError:
        return "rejected"
    except Exception as e:
        raise HarnessEscape(type(e).__name__)


def keyword(d, k, kind, position="root"):
    place = cand.POSITIONS[position]

    def pre(v):
        return small(v, 2, 2, 2) and cand.value_ok(d, kind, v)

    def body(v):
        val = cand.value_of(d, kind, v)
        schema = place(d, {k: val})
        got = verdict(d, schema)
        want = "accepted" if refmodel.valid(d, cand.metaschema(d), schema) else "rejected"
        return got == want, got

    return Spec([("v", cand.VALUE_KINDS[kind])], pre, body, tags=[])


SCHEMA_URIS = ["http://json-schema.org/draft-03/schema#", "http://json-schema.org/draft-04/schema#", "http://json-schema.org/draft-06/schema#",
               "http://json-schema.org/draft-07/schema#", "http://json-schema.org/draft-04/schema", "http://example.test/unknown-dialect", "not a uri", ""]


def with_schema_uri(d, k, kind):
    """the candidate names another dialect in its own $schema: the class's verdict must still follow its own metaschema and rules"""
    def pre(v, ui):
        return small(v, 2, 2, 2) and cand.value_ok(d, kind, v) and 0 <= ui < len(SCHEMA_URIS)

    def body(v, ui):
        schema = {"$schema": pick(SCHEMA_URIS, ui), k: cand.value_of(d, kind, v)}
        got = verdict(d, schema)
        want = "accepted" if refmodel.valid(d, cand.metaschema(d), schema) else "rejected"
        return got == want, got

    return Spec([("v", cand.VALUE_KINDS[kind]), ("ui", int)], pre, body, tags=[])


def nonobject(d, kind):
    T = {"scalar": Scalar, "arr_int": List[int], "arr_str": List[str]}[kind]

    def pre(v):
        return small(v, 2, 2, 2)

    def body(v):
        got = verdict(d, v)
        want = "accepted" if refmodel.valid(d, cand.metaschema(d), v) else "rejected"
        return got == want, got

    return Spec([("v", T)], pre, body, tags=["accepted", "rejected"] if (d >= 6 and kind == "scalar") else ["rejected"])


def dep_pair(d, kind):
    """the metaschema's own `dependencies` (drafts 3/4: exclusiveMinimum needs minimum, exclusiveMaximum needs maximum),
    with every presence flag and both boolean values symbolic"""
    def pre(v, b1, b2, with_emin, with_emax, with_min, with_max):
        return small(v, 2, 2, 2) and cand.value_ok(d, kind, v)

    def body(v, b1, b2, with_emin, with_emax, with_min, with_max):
        schema = {}
        if with_emin:
            schema["exclusiveMinimum"] = b1
        if with_emax:
            schema["exclusiveMaximum"] = b2
        if with_min:
            schema["minimum"] = cand.value_of(d, kind, v)
        if with_max:
            schema["maximum"] = 3
        got = verdict(d, schema)
        want = "accepted" if refmodel.valid(d, cand.metaschema(d), schema) else "rejected"
        return got == want, got

    B = bool
    return Spec([("v", cand.VALUE_KINDS[kind]), ("b1", B), ("b2", B), ("with_emin", B), ("with_emax", B), ("with_min", B), ("with_max", B)],
                pre, body, tags=["accepted", "rejected"] if kind != "str" else ["accepted", "rejected"])


def self_accept(d):
    def pre(x):
        return True

    def body(x):
        return verdict(d, tp.CLS[d].META_SCHEMA) == "accepted" and verdict(d, cand.metaschema(d)) == "accepted", "accepted"

    return Spec([("x", bool)], pre, body, tags=["accepted"])


def preflight(tier):
    r = gate.run()
    return r["disagreements"] == 0 and r["cases"] > 1500, r


def conditions(tier, seed, active):
    out = []
    rng = random.Random(seed)
    quick = tier == "quick"

    def c(cid, factory, params, tags, timeout=600):
        out.append(dict(id=cid, module=__name__, factory=factory, params=params, timeout=timeout, tags=tags,
                        witness=tags if (tags and (not quick or rng.random() < 0.3)) else []))

    for d in (3, 4, 6, 7):
        c("self/d%d" % d, "self_accept", dict(d=d), ["accepted"])
        for kind in ("scalar", "arr_int", "arr_str"):
            c("nonobject/%s/d%d" % (kind, d), "nonobject", dict(d=d, kind=kind), ["accepted", "rejected"] if (d >= 6 and kind == "scalar") else ["rejected"])
        if d in (3, 4):
            for kind in ("int", "str", "float"):
                c("metadeps/%s/d%d" % (kind, d), "dep_pair", dict(d=d, kind=kind), ["accepted", "rejected"])
        for k, kinds in (("type", ("int", "str", "arr_str")), ("multipleOf", ("int", "float")), ("divisibleBy", ("int", "float")),
                         ("exclusiveMinimum", ("bool", "int")), ("required", ("bool", "arr_str")), ("const", ("null", "int")),
                         ("items", ("bool", "subschema")), ("id", ("str", "int")), ("$id", ("str", "int"))):
            for kind in kinds:
                c("schema-uri/%s/%s/d%d" % (k, kind, d), "with_schema_uri", dict(d=d, k=k, kind=kind), [], timeout=900)
        for k in cand.keywords(d):
            root_kinds = cand.kinds_for(k)
            if quick:
                root_kinds = rng.sample(root_kinds, 5)
            for kind in root_kinds:
                c("kw/%s/%s/d%d" % (k, kind, d), "keyword", dict(d=d, k=k, kind=kind), [], timeout=900)
            positions = [p for p in cand.POSITIONS if p != "root"]
            if quick:
                positions = [rng.choice(positions)]
            for pos in positions:
                kinds = rng.sample(cand.kinds_for(k), 1 if quick else 2)
                for kind in kinds:
                    c("kw@%s/%s/%s/d%d" % (pos, k, kind, d), "keyword", dict(d=d, k=k, kind=kind, position=pos), [], timeout=900)
    return out
