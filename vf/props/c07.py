"""C07 -- validation is pure and history-independent; a validator can be reused forever (E1: inductive step
over one arbitrary operation from a state satisfying the invariant, plus short histories)."""
import copy
import os
from typing import List

from jsonschema import RefResolver
from jsonschema.exceptions import RefResolutionError, ValidationError

from vf import templates as tp
from vf.harness import HarnessEscape, Spec, pick

META = {
    "level": "model_checking",
    "explanation": "bounded symbolic execution of histories on ONE validator object: operation codes (is_valid / exhaust iter_errors / validate / "
                   "take k errors then close / take k then drop the iterator / direct resolve), the instances (a symbolic key choice over "
                   "the schema's reference kinds: local, remote-in-store, relative under a nested id, recursive, unresolvable; a symbolic "
                   "integer value) and the handler's fault schedule are symbolic; after every operation the invariant (scope stack = "
                   "[base], instance / schema / store documents unchanged) is asserted and the next operation's result equals a fresh "
                   "validator's.  Every operation restoring the invariant makes histories of any length chains of such steps.",
    "bounds": {"history length": "1 operation + final probe (quick), 2 operations + final probe (thorough, Draft 7)", "k": "0..2", "schema": "one per draft containing every reference kind"},
    "outside": ["re-entering a validator while one of its own iterators is suspended (excluded by the property)", "threads"],
    "stubs": ["message formatting", "the http handler is a harness function with a symbolic fault schedule"],
    "assumptions": ["CPython finalises an abandoned generator promptly (the plain-interpreter replay is the arbiter)"],
}
ID = {3: "id", 4: "id", 6: "$id", 7: "$id"}
KEYS = ["u", "v", "w", "z", "r", "h", "f"]
FVALS = [2.0, 2.5, 3, "s"]
N_OPS = 6


def schema_for(d):
    idk = ID[d]
    neg = {"disallow": [{"properties": {"u": {"$ref": "#/definitions/a"}}, "type": "object"}]} if d == 3 else \
          {"not": {"properties": {"u": {"$ref": "#/definitions/a"}}, "required": ["zz"]}}
    s = {
        idk: "http://x.test/root.json",
        "definitions": {
            "a": {idk: "http://x.test/sub/a.json", "properties": {"p": {"$ref": "b.json"}}, "maximum": 5},
            "b": {idk: "http://x.test/sub/b.json", "minimum": 1},
            "rec": {"items": {"$ref": "#/definitions/rec"}, "maximum": 9},
        },
        "properties": {
            "u": {"$ref": "#/definitions/a"},                 # local; its target changes the base
            "v": {"$ref": "sub/b.json"},                      # relative, served from the store
            "w": {"$ref": "http://nowhere.test/x.json"},      # unresolvable (handler fails unless told otherwise)
            "r": {"$ref": "#/definitions/rec"},               # recursive
            "h": {"$ref": "http://h.test/doc.json#/definitions/m"},   # handler-served, fault schedule
            "z": {"maximum": 3, "minimum": 1},
            "f": {"type": ["integer", "string"]},              # floats from a concrete catalogue: 2.0 is an integer in drafts 6/7, 2.5 is not
        },
    }
    s.update(neg)
    return s


def summarize(v, x):
    try:
        return [[e.validator] + list(e.absolute_path) for e in v.iter_errors(x)]
    except RefResolutionError:
        return "RRE"
    except Exception as e:
        raise HarnessEscape(type(e).__name__)


def step(d, n_ops):
    cls = tp.CLS[d]

    def pre(ops, keys, vals, ks, faults):
        if len(ops) != n_ops or len(keys) != n_ops + 1 or len(vals) != n_ops + 1 or len(ks) != n_ops or len(faults) != 3:
            return False
        for o in ops:
            if not (0 <= o < N_OPS):
                return False
        for k in keys:
            if not (0 <= k < len(KEYS)):
                return False
        for k in ks:
            if not (0 <= k <= 2):
                return False
        for i in range(len(keys)):
            if keys[i] == KEYS.index("f") and not (0 <= vals[i] < len(FVALS)):
                return False
        return True

    def body(ops, keys, vals, ks, faults):
        schema = schema_for(d)
        store_docs = {"http://x.test/sub/b.json": schema["definitions"]["b"], "http://x.test/sub/a.json": schema["definitions"]["a"]}
        remote = {"definitions": {"m": {"maximum": 7}}}
        calls = []

        def handler(uri):
            calls.append(uri)
            if uri.startswith("http://nowhere"):
                raise OSError("offline")
            i = len([u for u in calls if u.startswith("http://h.test")]) - 1
            if i < len(faults) and faults[i]:
                raise OSError("temporary failure")
            return remote

        def mk():
            return cls(schema, resolver=RefResolver.from_schema(schema, id_of=cls.ID_OF, store=dict(store_docs), handlers={"http": handler}))

        v = mk()
        scope0 = v.resolver.resolution_scope
        snap_schema = copy.deepcopy(schema)
        snap_docs = copy.deepcopy(store_docs)
        snap_remote = copy.deepcopy(remote)

        def inst(i):
            key = pick(KEYS, keys[i])
            val = vals[i]
            if key == "u":
                return {"u": {"p": val}}
            if key == "f":
                return {"f": pick(FVALS, val)}
            if key == "r":
                return {"r": [[val], val]}
            return {key: val}

        kept = []
        for i in range(n_ops):
            x = inst(i)
            x_snap = copy.deepcopy(x)
            o = ops[i]
            try:
                if o == 0:
                    v.is_valid(x)
                elif o == 1:
                    list(v.iter_errors(x))
                elif o == 2:
                    try:
                        v.validate(x)
                    except ValidationError as exc:
                        kept.append(exc)        # the caller keeps the exception (a report list): its traceback must not pin any state
                elif o == 3:
                    it = v.iter_errors(x)
                    for _ in range(ks[i]):
                        next(it, None)
                    it.close()
                elif o == 4:
                    it = v.iter_errors(x)
                    for _ in range(ks[i]):
                        next(it, None)
                    del it
                else:
                    v.resolver.resolve(pick(["#/definitions/a", "sub/b.json", "http://nowhere.test/x.json", "#/definitions/nope",
                                             "http://h.test/doc.json#/definitions/m", "#", "#/properties/f"], keys[i]))
            except RefResolutionError:
                pass
            except Exception as e:
                raise HarnessEscape(type(e).__name__)
            # invariant: nothing suspended => scope is what it was; documents untouched
            try:
                scope_now = v.resolver.resolution_scope
            except Exception:
                return False, "scope-lost"           # the stack was popped below its base entry
            if scope_now != scope0 or len(v.resolver._scopes_stack) != 1:
                return False, "scope-leak"
            if x != x_snap or schema != snap_schema or store_docs != snap_docs or remote != snap_remote:
                return False, "mutation"
        # the next operation's result equals a fresh validator's (which sees the same future fault schedule)
        y = inst(n_ops)
        n_before = len(calls)
        got = summarize(v, y)
        used = len([u for u in calls[n_before:] if u.startswith("http://h.test")])
        fresh_faults_offset = len([u for u in calls[:n_before] if u.startswith("http://h.test")])
        # a fresh validator performing only the last operation, with the handler in the same state
        calls2 = list(calls[:n_before])
        del calls[n_before:]
        want = summarize(mk(), y)
        if got == "RRE" or want == "RRE":
            # retrieval may legitimately differ only through caching: a document fetched successfully earlier stays available
            return (got == want) or (got != "RRE" and want == "RRE"), "rre"
        return got == want, ("valid" if not want else "invalid")

    return Spec([("ops", List[int]), ("keys", List[int]), ("vals", List[int]), ("ks", List[int]), ("faults", List[bool])], pre, body,
                tags=["valid", "invalid"])


def cube(d, n_ops, first_op, first_key=None, second_op=None):
    spec = step(d, n_ops)
    inner = spec.pre

    def pre(ops, keys, vals, ks, faults):
        if not inner(ops, keys, vals, ks, faults):
            return False
        if ops[0] != first_op:
            return False
        if second_op is not None and ops[1] != second_op:
            return False
        return first_key is None or keys[0] == first_key

    spec.pre = pre
    return spec


def conditions(tier, seed, active):
    import random
    out = []
    quick = tier == "quick"
    rng = random.Random(seed)
    for d in (3, 4, 6, 7):
        for o in range(N_OPS):
            for k in range(len(KEYS)):
                if quick and d != 7 and (o * len(KEYS) + k + d) % (3 if d == 4 else 5) != 0:
                    continue            # quick: every (operation, reference kind) for Draft 7, a rotating half / quarter for the others
                out.append(dict(id="step/d%d/op%d/key%d" % (d, o, k), module=__name__, factory="cube",
                                params=dict(d=d, n_ops=1, first_op=o, first_key=k), timeout=900, tags=[],
                                witness=["valid", "invalid"] if (d == 7 and k == 5 and o < 2) else []))
        # two operations + probe: measured 2000+ paths / 2200 s when only the first operation and key are fixed, so these are
        # cubed on (first op, first key, second op) and run in the thorough tier only
        if not quick and d == 7 and os.environ.get("VERIF_DEEP"):
            for o in range(N_OPS):
                for k in range(len(KEYS)):
                    for o2 in range(N_OPS):
                        out.append(dict(id="history2/d%d/op%d/key%d/op%d" % (d, o, k, o2), module=__name__, factory="cube",
                                        params=dict(d=d, n_ops=2, first_op=o, first_key=k, second_op=o2), timeout=3600, tags=[], witness=[]))
    return out
