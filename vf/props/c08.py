"""C08 -- enum, const and uniqueItems use JSON equality at every nesting depth (E1; oracle = refmodel.jeq)."""
from typing import Dict, List, Union

from vf import templates as tp
from vf.harness import Scalar, Spec, call, pick, small
from vf.refmodel import jeq

META = {
    "level": "model_checking",
    "explanation": "bounded symbolic execution of const / enum / uniqueItems on symbolic pairs (and triples) of JSON values, compared on every "
                   "feasible path with a 20-line recursive definition of JSON equality; the three keywords are tied to the same oracle, so "
                   "they agree with each other",
    "bounds": {"depth": "<= 2", "containers": "<= 2 entries (3 thorough for flat arrays)", "strings": "<= 2 code points", "integers": "unbounded",
               "floats": "concrete catalogue next to symbolic ints"},
    "outside": ["symbolic floats (numeric equality of floats is IEEE ==, decided in C09's encoding for comparisons only)", "depth > 2"],
    "stubs": ["message formatting"],
    "assumptions": ["CrossHair's models of set/sorted/== on symbolic containers; each reachability witness is replayed in the plain interpreter"],
}

BI = Union[bool, int]
KINDS = {
    "scalar": Scalar,
    "arr_scalar": List[Scalar],
    "obj_scalar": Dict[str, Scalar],
    "arr_bi": List[BI],
    "arr_arr_bi": List[List[BI]],
    "obj_arr_bi": Dict[str, List[BI]],
    "arr_obj_bi": List[Dict[str, BI]],
    "obj_obj_bi": Dict[str, Dict[str, BI]],
    "int": int,
    "bool": bool,
    "str": str,
}
FLOATS = [0.0, -0.0, 1.0, 0.5, 2.0 ** 53, 1e308, 5e-324, -1.0, 2.0]
FILL = ["fff", "ggg", "hhh"]


def keyword_ok(draft, kw, a, b, nfill=0):
    """(implementation verdict == oracle verdict, tag)"""
    cls = tp.CLS[draft]
    eq = jeq(a, b)
    if kw == "const":
        got = call(cls({"const": a}).is_valid, b)
        return got == eq, ("equal" if got else "different")
    if kw == "enum1":
        got = call(cls({"enum": [a]}).is_valid, b)
        return got == eq, ("equal" if got else "different")
    if kw == "enum2":
        got = call(cls({"enum": [None, a, "zzz"]}).is_valid, b)
        return got == (eq or b is None), ("equal" if got else "different")
    if kw == "uniq":
        arr = [a] + FILL[:nfill] + [b]
        got = call(cls({"uniqueItems": True}).is_valid, arr)
        return got == (not eq), ("different" if got else "equal")
    raise ValueError(kw)


def pair(draft, kw, ka, kb, N=2, nfill=0):
    def pre(a, b):
        return small(a, 2, N, 2) and small(b, 2, N, 2)

    def body(a, b):
        return keyword_ok(draft, kw, a, b, nfill)

    same_family = ka.split("_")[0] == kb.split("_")[0] or "scalar" in (ka, kb)
    return Spec([("a", KINDS[ka]), ("b", KINDS[kb])], pre, body, tags=["equal", "different"] if same_family else ["different"])


def float_pair(draft, kw, nested):
    """symbolic int against a float from the catalogue, top-level or inside arrays/objects"""
    def pre(a, fi):
        return 0 <= fi < len(FLOATS)

    def body(a, fi):
        f = pick(FLOATS, fi)
        if nested == "arr":
            x, y = [a], [f]
        elif nested == "obj":
            x, y = {"k": a}, {"k": f}
        else:
            x, y = a, f
        ok1, tag = keyword_ok(draft, kw, x, y)
        ok2, _ = keyword_ok(draft, kw, y, x)
        return ok1 and ok2, tag

    return Spec([("a", int), ("fi", int)], pre, body, tags=["equal", "different"])


def triple(draft, kind):
    """uniqueItems on three symbolic elements: any two equal <=> rejected"""
    def pre(a, b, c):
        return small(a, 2, 2, 2) and small(b, 2, 2, 2) and small(c, 2, 2, 2)

    def body(a, b, c):
        got = call(tp.CLS[draft]({"uniqueItems": True}).is_valid, [a, b, c])
        want = not (jeq(a, b) or jeq(a, c) or jeq(b, c))
        return got == want, ("unique" if got else "duplicate")

    T = KINDS[kind]
    return Spec([("a", T), ("b", T), ("c", T)], pre, body, tags=["unique", "duplicate"])


PAIRS_QUICK = [("scalar", "scalar"), ("arr_scalar", "arr_scalar"), ("obj_scalar", "obj_scalar"), ("arr_arr_bi", "arr_arr_bi"),
               ("obj_arr_bi", "obj_arr_bi"), ("arr_obj_bi", "arr_obj_bi"), ("arr_scalar", "scalar"), ("obj_scalar", "arr_scalar")]
PAIRS_MORE = [("obj_obj_bi", "obj_obj_bi"), ("arr_bi", "arr_arr_bi"), ("scalar", "obj_scalar")]


def conditions(tier, seed, active):
    out = []
    quick = tier == "quick"

    def c(cid, factory, params, tags, timeout=600):
        out.append(dict(id=cid, module=__name__, factory=factory, params=params, timeout=timeout, tags=tags,
                        witness=tags if (not quick or cid.endswith("/d7") or cid.endswith("/d3")) else []))

    for kw in ("const", "enum1", "enum2", "uniq"):
        drafts = (6, 7) if kw == "const" else (3, 4, 6, 7)
        if quick:
            drafts = (7,) if kw == "const" else ((3, 7) if kw in ("enum1", "uniq") else (4,))
        for d in drafts:
            for ka, kb in PAIRS_QUICK + ([] if quick else PAIRS_MORE):
                same_family = ka.split("_")[0] == kb.split("_")[0] or "scalar" in (ka, kb)
                tags = ["equal", "different"] if same_family else ["different"]
                c("%s/%s~%s/d%d" % (kw, ka, kb, d), "pair", dict(draft=d, kw=kw, ka=ka, kb=kb), tags,
                  timeout=900 if quick else 2400)
            for nested in ("top", "arr", "obj"):
                c("%s/int~float-%s/d%d" % (kw, nested, d), "float_pair", dict(draft=d, kw=kw, nested=nested), ["equal", "different"])
    for d in ((7,) if quick else (3, 4, 6, 7)):
        for nfill in (1, 2):
            for ka in ("scalar", "arr_bi", "obj_scalar"):
                c("uniq-far%d/%s/d%d" % (nfill, ka, d), "pair", dict(draft=d, kw="uniq", ka=ka, kb=ka, nfill=nfill), ["equal", "different"])
        for kind in ("scalar", "arr_bi") + (() if quick else ("arr_scalar", "obj_scalar")):
            c("uniq3/%s/d%d" % (kind, d), "triple", dict(draft=d, kind=kind), ["unique", "duplicate"], timeout=900 if quick else 2400)
    return out
