"""C08 -- enum, const and uniqueItems use JSON equality at every nesting depth (E1; oracle = refmodel.jeq)."""
from typing import Dict, List, Union

from vf import templates as tp
from vf.harness import Scalar, Spec, call, pick, small
from vf.refmodel import jeq

META = {
    "level": "model_checking",
    "explanation": "bounded symbolic execution of const / enum / uniqueItems on symbolic pairs (and triples) of JSON values, compared on every "
                   "feasible path with a 20-line recursive definition of JSON equality; the three keywords are tied to the same oracle, so "
                   "they agree with each other",
    "bounds": {"depth": "<= 2", "containers": "<= 2 entries (3 thorough for flat arrays)", "strings": "<= 2 code points", "integers": "unbounded",
               "floats": "as members of a concrete catalogue (0.0, -0.0, 1.0, 2.0, 0.5, 2.0**53 next to 0, 1, 2, 2**53, 2**53+1, booleans, null, strings) chosen by symbolic indices -- exhaustive over the catalogue; not as symbolic values (CrossHair enumerates integers when a symbolic int meets a float: 283 paths, no end)"},
    "outside": ["floats other than the catalogue members", "depth > 3", "containers > 2 entries"],
    "stubs": ["message formatting"],
    "assumptions": ["CrossHair's models of set/sorted/== on symbolic containers; each reachability witness is replayed in the plain interpreter"],
}

BI = Union[bool, int]
KINDS = {
    "scalar": Scalar,
    "arr_scalar": List[Scalar],
    "obj_scalar": Dict[str, Scalar],
    "arr_bi": List[BI],
    "obj_bi": Dict[str, BI],
    "arr_arr_bi": List[List[BI]],
    "obj_arr_bi": Dict[str, List[BI]],
    "arr_obj_bi": List[Dict[str, BI]],
    "obj_obj_bi": Dict[str, Dict[str, BI]],
    "int": int,
    "bool": bool,
    "str": str,
}
FLOATS = [0.0, -0.0, 1.0, 0.5, -1.0, 2.0, 4503599627370496.0]
FILL = ["fff", "ggg", "hhh"]


def keyword_ok(draft, kw, a, b, nfill=0):
    """(implementation verdict == oracle verdict, tag)"""
    cls = tp.CLS[draft]
    eq = jeq(a, b)
    if kw == "const":
        got = call(cls({"const": a}).is_valid, b)
        return got == eq, ("equal" if got else "different")
    if kw == "enum1":
        got = call(cls({"enum": [a]}).is_valid, b)
        return got == eq, ("equal" if got else "different")
    if kw == "enum2":
        got = call(cls({"enum": [None, a, "zzz"]}).is_valid, b)
        return got == (eq or b is None), ("equal" if got else "different")
    if kw == "uniq":
        arr = [a] + FILL[:nfill] + [b]
        got = call(cls({"uniqueItems": True}).is_valid, arr)
        return got == (not eq), ("different" if got else "equal")
    raise ValueError(kw)


def pair(draft, kw, ka, kb, N=2, N2=2, L=2, nfill=0):
    def pre(a, b):
        return small(a, L, N, N2) and small(b, L, N, N2)

    def body(a, b):
        return keyword_ok(draft, kw, a, b, nfill)

    same_family = ka.split("_")[0] == kb.split("_")[0] or "scalar" in (ka, kb)
    return Spec([("a", KINDS[ka]), ("b", KINDS[kb])], pre, body, tags=["equal", "different"] if same_family else ["different"])


def float_pair(draft, kw, nested):
    """symbolic int against a float from the catalogue, top-level or inside arrays/objects"""
    def pre(a, fi):
        return 0 <= fi < len(FLOATS)

    def body(a, fi):
        f = pick(FLOATS, fi)
        if nested == "arr":
            x, y = [a], [f]
        elif nested == "obj":
            x, y = {"k": a}, {"k": f}
        else:
            x, y = a, f
        ok1, tag = keyword_ok(draft, kw, x, y)
        ok2, _ = keyword_ok(draft, kw, y, x)
        return ok1 and ok2, tag

    return Spec([("a", int), ("fi", int)], pre, body, tags=["equal", "different"])


def triple(draft, kind):
    """uniqueItems on three symbolic elements: any two equal <=> rejected"""
    def pre(a, b, c):
        return small(a, 2, 2, 2) and small(b, 2, 2, 2) and small(c, 2, 2, 2)

    def body(a, b, c):
        got = call(tp.CLS[draft]({"uniqueItems": True}).is_valid, [a, b, c])
        want = not (jeq(a, b) or jeq(a, c) or jeq(b, c))
        return got == want, ("unique" if got else "duplicate")

    T = KINDS[kind]
    return Spec([("a", T), ("b", T), ("c", T)], pre, body, tags=["unique", "duplicate"])


# ---- concrete shapes with symbolic leaves (cheap: no symbolic containers) ------------------------
SHAPES = {
    "s": (1, lambda l: l[0]),
    "[]": (0, lambda l: []),
    "{}": (0, lambda l: {}),
    "[s]": (1, lambda l: [l[0]]),
    "[s,s]": (2, lambda l: [l[0], l[1]]),
    "{a:s}": (1, lambda l: {"a": l[0]}),
    "{b:s}": (1, lambda l: {"b": l[0]}),
    "{a:s,b:s}": (2, lambda l: {"a": l[0], "b": l[1]}),
    "{b:s,a:s}": (2, lambda l: {"b": l[1], "a": l[0]}),
    "[[s]]": (1, lambda l: [[l[0]]]),
    "[[s],[s]]": (2, lambda l: [[l[0]], [l[1]]]),
    "[[s,s]]": (2, lambda l: [[l[0], l[1]]]),
    "[[],s]": (1, lambda l: [[], l[0]]),
    "[{a:s}]": (1, lambda l: [{"a": l[0]}]),
    "[{a:s},{a:s}]": (2, lambda l: [{"a": l[0]}, {"a": l[1]}]),
    "{a:[s]}": (1, lambda l: {"a": [l[0]]}),
    "{a:[s,s]}": (2, lambda l: {"a": [l[0], l[1]]}),
    "{a:{b:s}}": (1, lambda l: {"a": {"b": l[0]}}),
    "{a:{b:s,c:s}}": (2, lambda l: {"a": {"b": l[0], "c": l[1]}}),
    "{a:{c:s,b:s}}": (2, lambda l: {"a": {"c": l[1], "b": l[0]}}),
    "[s,[s]]": (2, lambda l: [l[0], [l[1]]]),
    "[[[s]]]": (1, lambda l: [[[l[0]]]]),
    "{a:[{b:s}]}": (1, lambda l: {"a": [{"b": l[0]}]}),
}
SAME = [("s", "s"), ("[s]", "[s]"), ("[s,s]", "[s,s]"), ("{a:s}", "{a:s}"), ("{a:s,b:s}", "{b:s,a:s}"), ("{a:s,b:s}", "{a:s,b:s}"),
        ("[[s]]", "[[s]]"), ("[[s],[s]]", "[[s],[s]]"), ("[[s,s]]", "[[s,s]]"), ("[{a:s}]", "[{a:s}]"), ("[{a:s},{a:s}]", "[{a:s},{a:s}]"),
        ("{a:[s]}", "{a:[s]}"), ("{a:[s,s]}", "{a:[s,s]}"), ("{a:{b:s}}", "{a:{b:s}}"), ("{a:{b:s,c:s}}", "{a:{c:s,b:s}}"),
        ("[s,[s]]", "[s,[s]]"), ("[[[s]]]", "[[[s]]]"), ("{a:[{b:s}]}", "{a:[{b:s}]}"), ("[[],s]", "[[],s]")]
NEAR = [("[s]", "[s,s]"), ("{a:s}", "{b:s}"), ("{a:s}", "{a:s,b:s}"), ("[[s]]", "[s]"), ("[[s],[s]]", "[[s,s]]"), ("[]", "{}"), ("[]", "[s]"),
        ("{}", "{a:s}"), ("[{a:s}]", "{a:[s]}"), ("s", "[s]"), ("[[],s]", "[s,[s]]"), ("{a:{b:s}}", "{a:[s]}"), ("[s,s]", "[[s,s]]")]


def shaped(draft, kw, sa, sb, leaf="bi", nfill=0):
    na, fa = SHAPES[sa]
    nb, fb = SHAPES[sb]
    LT = BI if leaf == "bi" else Scalar
    n = na + nb

    def pre(*ls):
        return all(small(x, 2, 2) for x in ls)

    def body(*ls):
        a = fa(list(ls[:na]))
        b = fb(list(ls[na:]))
        ok1, tag = keyword_ok(draft, kw, a, b, nfill)
        ok2, _ = keyword_ok(draft, kw, b, a, nfill)
        return ok1 and ok2, tag

    return Spec([("l%d" % i, LT) for i in range(n)] or [("unused", bool)], pre if n else (lambda unused: True),
                body if n else (lambda unused: body()), tags=["equal", "different"] if (sa, sb) in SAME else ["different"])


CAT = [None, True, False, 0, 1, 2, -1, 2 ** 53, 2 ** 53 + 1, 0.0, -0.0, 1.0, 2.0, 0.5, 2.0 ** 53, "", "1", "a"]
CAT_SHAPES = {
    "s": lambda v: v, "[s]": lambda v: [v], "{a:s}": lambda v: {"a": v}, "[[s]]": lambda v: [[v]], "{a:[s]}": lambda v: {"a": [v]},
    "[{a:s}]": lambda v: [{"a": v}],
}


def cat_pair(draft, kw, shape):
    """leaves from a concrete catalogue (incl. floats, 2**53+1, -0.0) chosen by symbolic indices: exhaustive over the catalogue"""
    f = CAT_SHAPES[shape]

    def pre(i, j):
        return 0 <= i < len(CAT) and 0 <= j < len(CAT)

    def body(i, j):
        return keyword_ok(draft, kw, f(pick(CAT, i)), f(pick(CAT, j)))

    return Spec([("i", int), ("j", int)], pre, body, tags=["equal", "different"])


def cat_mixed_uniq(draft, filler):
    """uniqueItems over [filler, c1, c2]: an unhashable filler forces the non-hash path while two scalars are compared"""
    fill = {"obj": {}, "arr": [], "arr1": [1], "none": None}[filler]

    def pre(i, j):
        return 0 <= i < len(CAT) and 0 <= j < len(CAT)

    def body(i, j):
        a, b = pick(CAT, i), pick(CAT, j)
        ok = True
        tag = None
        for arr in ([fill, a, b], [a, fill, b], [a, b, fill]):
            got = call(tp.CLS[draft]({"uniqueItems": True}).is_valid, arr)
            want = not (jeq(a, b) or jeq(fill, a) or jeq(fill, b))
            ok = ok and got == want
            tag = "unique" if got else "duplicate"
        return ok, tag

    return Spec([("i", int), ("j", int)], pre, body, tags=["unique", "duplicate"])


def shaped3(draft, shape, leaf="bi"):
    """uniqueItems over three elements of one shape"""
    n1, f = SHAPES[shape]
    LT = BI if leaf == "bi" else Scalar

    def pre(*ls):
        return all(small(x, 2, 2) for x in ls)

    def body(*ls):
        xs = [f(list(ls[i * n1:(i + 1) * n1])) for i in range(3)]
        got = call(tp.CLS[draft]({"uniqueItems": True}).is_valid, xs)
        want = not (jeq(xs[0], xs[1]) or jeq(xs[0], xs[2]) or jeq(xs[1], xs[2]))
        return got == want, ("unique" if got else "duplicate")

    return Spec([("l%d" % i, LT) for i in range(3 * n1)], pre, body, tags=["unique", "duplicate"])


def conditions(tier, seed, active):
    import random
    out = []
    quick = tier == "quick"
    rng = random.Random(seed)

    def c(cid, factory, params, tags, timeout=600, wit=None):
        w = tags if (wit if wit is not None else (not quick or rng.random() < 0.2)) else []
        out.append(dict(id=cid, module=__name__, factory=factory, params=params, timeout=timeout, tags=tags, witness=w))

    for kw in ("const", "enum1", "enum2", "uniq"):
        drafts = (6, 7) if kw == "const" else (3, 4, 6, 7)
        for d in drafts:
            qd = (not quick) or d == {"const": 7, "enum1": 3, "enum2": 4, "uniq": 6}[kw]
            for sa, sb in SAME:
                nl = SHAPES[sa][0] + SHAPES[sb][0]
                if qd or rng.random() < 0.25:
                    c("%s/%s~%s/bi/d%d" % (kw, sa, sb, d), "shaped", dict(draft=d, kw=kw, sa=sa, sb=sb, leaf="bi"), ["equal", "different"])
                if nl <= 2 and (qd or rng.random() < 0.25):
                    c("%s/%s~%s/scalar/d%d" % (kw, sa, sb, d), "shaped", dict(draft=d, kw=kw, sa=sa, sb=sb, leaf="scalar"), ["equal", "different"])
            for sa, sb in NEAR:
                if qd or rng.random() < 0.15:
                    c("%s/%s~%s/bi/d%d" % (kw, sa, sb, d), "shaped", dict(draft=d, kw=kw, sa=sa, sb=sb, leaf="bi"), ["different"])
                if SHAPES[sa][0] + SHAPES[sb][0] <= 2 and (qd or rng.random() < 0.15):
                    c("%s/%s~%s/scalar/d%d" % (kw, sa, sb, d), "shaped", dict(draft=d, kw=kw, sa=sa, sb=sb, leaf="scalar"), ["different"])
            for shape in CAT_SHAPES:
                if qd or (not quick) or rng.random() < 0.2:
                    c("%s/catalogue/%s/d%d" % (kw, shape, d), "cat_pair", dict(draft=d, kw=kw, shape=shape), ["equal", "different"], timeout=900)
            if not quick:
                names = sorted(SHAPES)
                for sa in names:
                    for sb in names:
                        if (sa, sb) in SAME or (sa, sb) in NEAR or sa >= sb or rng.random() < 0.75:
                            continue
                        c("%s/%s~%s/bi/d%d" % (kw, sa, sb, d), "shaped", dict(draft=d, kw=kw, sa=sa, sb=sb, leaf="bi"), ["different"])
            # symbolic containers (general, expensive): flat arrays and scalars
            if qd:
                c("%s/sym:scalar~scalar/d%d" % (kw, d), "pair", dict(draft=d, kw=kw, ka="scalar", kb="scalar"), ["equal", "different"])
                c("%s/sym:arr_bi~arr_bi/d%d" % (kw, d), "pair", dict(draft=d, kw=kw, ka="arr_bi", kb="arr_bi"), ["equal", "different"], timeout=900)
            if not quick:
                for ka, kb in (("obj_bi", "obj_bi"), ("arr_scalar", "arr_scalar"), ("obj_bi", "arr_bi"), ("arr_arr_bi", "arr_arr_bi")):
                    extra = dict(N2=1, L=1) if ka == "arr_arr_bi" else dict(L=1)
                    same_family = ka.split("_")[0] == kb.split("_")[0]
                    c("%s/sym:%s~%s/d%d" % (kw, ka, kb, d), "pair", dict(draft=d, kw=kw, ka=ka, kb=kb, **extra),
                      ["equal", "different"] if same_family else ["different"], timeout=3000)
    for d in (3, 4, 6, 7):
        for filler in ("obj", "arr", "arr1", "none"):
            if quick and d in (4, 6) and filler in ("arr1", "none"):
                continue
            c("uniq-mixed/catalogue/%s/d%d" % (filler, d), "cat_mixed_uniq", dict(draft=d, filler=filler), ["unique", "duplicate"], timeout=900)
    for d in ((7, 3) if quick else (3, 4, 6, 7)):
        for nfill in (1, 2):
            for sa, sb in (("s", "s"), ("[s]", "[s]"), ("{a:s}", "{a:s}")):
                c("uniq-far%d/%s/d%d" % (nfill, sa, d), "shaped", dict(draft=d, kw="uniq", sa=sa, sb=sb, leaf="bi", nfill=nfill), ["equal", "different"])
        for shape in ("s", "[s]", "{a:s}") + (() if quick else ("[[s]]", "[s,s]")):
            c("uniq3/%s/bi/d%d" % (shape, d), "shaped3", dict(draft=d, shape=shape, leaf="bi"), ["unique", "duplicate"], timeout=900)
        c("uniq3/s/scalar/d%d" % d, "shaped3", dict(draft=d, shape="s", leaf="scalar"), ["unique", "duplicate"], timeout=900)
    return out
