"""C13 -- built-in format checkers decide their grammars exactly and never raise (E1, partial).

Grammar level: ipv4 / ip-address (pure-Python ipaddress executes symbolically) and email / idn-email.
Wrapper level only, under nondeterministic library stubs: date, time, regex, ipv6, idn-hostname (their
libraries run in C or realize every character; see DESIGN.md 3/C13)."""
import itertools
import types

import jsonschema
from jsonschema import FormatChecker, _format
from jsonschema.exceptions import FormatError

from vf.harness import HarnessEscape, Spec

META = {
    "level": "model_checking",
    "explanation": "bounded symbolic execution of FormatChecker.conforms/check: ipv4 (and Draft 3 ip-address) on symbolic strings split by "
                   "length and dot mask, compared with a 12-line grammar; email/idn-email on symbolic strings; for date, time, regex, ipv6, "
                   "idn-hostname the library call is replaced by a stub that by symbolic choice returns a value of its documented result "
                   "type or raises one of its documented exceptions, and the wrapper must turn that into a bool / FormatError",
    "bounds": {"ipv4": "every string of <= 7 code points (quick) / <= 9 (thorough), any code point", "email": "<= 4 code points"},
    "outside": ["the accepted languages of date, time, regex, ipv6, idn-hostname and undocumented exception types of their libraries "
                "(C code / character-table realisation; not decidable with this engine)"],
    "stubs": ["datetime.date.fromisoformat, datetime.datetime.strptime, re.compile, ipaddress.IPv6Address, idna.encode (contract stubs, wrapper conditions only)"],
    "assumptions": ["CrossHair's model of str.split/isdigit/isascii/int(str, 10) on symbolic strings (witnesses replayed concretely)"],
}

CHECKERS = {"default": lambda: FormatChecker(), "d3": lambda: jsonschema.draft3_format_checker, "d7": lambda: jsonschema.draft7_format_checker}


def spec_ipv4(s):
    parts = s.split(".")
    if len(parts) != 4:
        return False
    for p in parts:
        if not (1 <= len(p) <= 3):
            return False
        for ch in p:
            if ch not in "0123456789":
                return False
        if len(p) > 1 and p[0] == "0":
            return False
        if int(p) > 255:
            return False
    return True


def observe(fc, s, name):
    try:
        conf = fc.conforms(s, name)
    except Exception as e:
        raise HarnessEscape("conforms:" + type(e).__name__)
    try:
        fc.check(s, name)
        chk = True
    except FormatError:
        chk = False
    except Exception as e:
        raise HarnessEscape("check:" + type(e).__name__)
    return conf, chk


def ipv4(which, name, n, mask):
    """strings of exactly n code points whose dots are exactly at the positions in `mask`"""
    def pre(s):
        if len(s) != n:
            return False
        for i in range(n):
            if (s[i] == ".") != (i in mask):
                return False
        return True

    def body(s):
        conf, chk = observe(CHECKERS[which](), s, name)
        want = spec_ipv4(s)
        return (conf is want) and chk == want, ("accepts" if conf else "rejects")

    tags = ["rejects"]
    if len(mask) == 3 and n >= 7:
        parts = [len(p) for p in "".join("." if i in mask else "d" for i in range(n)).split(".")]
        if all(1 <= p <= 3 for p in parts):
            tags = ["accepts", "rejects"]
    return Spec([("s", str)], pre, body, tags=tags)


def email(which, name, L=4):
    def pre(s):
        return len(s) <= L

    def body(s):
        conf, chk = observe(CHECKERS[which](), s, name)
        want = False
        for c in s:
            if c == "@":
                want = True
        return (conf is want) and chk == want, ("accepts" if conf else "rejects")

    return Spec([("s", str)], pre, body, tags=["accepts", "rejects"])


class _Addr:
    def __init__(self, scope):
        if scope is not None:
            self.scope_id = scope


def wrapper(fmt, which):
    """wrapper layer of a format whose library is stubbed by contract"""
    def pre(sel, s):
        return 0 <= sel < 5 and len(s) <= 12

    def body(sel, s):
        import datetime as real_datetime
        import ipaddress as real_ipaddress
        import re as real_re
        saved = {}

        def lib(*a, **k):
            """documented results: a truthy object of the result type / a documented exception"""
            if fmt == "ipv6":
                if sel == 0:
                    return _Addr(None)
                if sel == 1:
                    return _Addr("")
                if sel == 2:
                    return _Addr("eth0")
                raise real_ipaddress.AddressValueError("stub")
            if sel <= 2:
                return real_datetime.date(2000, 1, 1) if fmt in ("date", "time") else ("x" if fmt == "idn-hostname" else real_re.compile("a"))
            if fmt == "regex":
                raise real_re.error("stub")
            if fmt == "idn-hostname":
                import idna
                if sel == 3:
                    raise idna.IDNAError("stub")
                raise UnicodeError("stub")
            raise ValueError("stub")

        try:
            if fmt == "date":
                saved["_is_date"] = _format._is_date
                _format._is_date = lib
            elif fmt == "time":
                saved["datetime"] = _format.datetime
                _format.datetime = types.SimpleNamespace(datetime=types.SimpleNamespace(strptime=lib), date=real_datetime.date)
            elif fmt == "regex":
                saved["re"] = _format.re
                _format.re = types.SimpleNamespace(compile=lib, error=real_re.error)
            elif fmt == "ipv6":
                saved["ipaddress"] = _format.ipaddress
                _format.ipaddress = types.SimpleNamespace(IPv6Address=lib, IPv4Address=real_ipaddress.IPv4Address,
                                                          AddressValueError=real_ipaddress.AddressValueError)
            elif fmt == "idn-hostname":
                saved["idna"] = _format.idna
                import idna
                _format.idna = types.SimpleNamespace(encode=lib, IDNAError=idna.IDNAError)
            conf, chk = observe(CHECKERS[which](), s, fmt)
        finally:
            for k, v in saved.items():
                setattr(_format, k, v)
        if fmt == "ipv6":
            want = sel in (0, 1)
        else:
            want = sel <= 2
        return (conf is want) and chk == want, ("accepts" if conf else "rejects")

    return Spec([("sel", int), ("s", str)], pre, body, tags=["accepts", "rejects"])


def masks(n):
    for k in range(0, n + 1):
        for m in itertools.combinations(range(n), k):
            yield m


def conditions(tier, seed, active):
    out = []
    quick = tier == "quick"

    def c(cid, factory, params, tags, timeout=600, wit=True):
        out.append(dict(id=cid, module=__name__, factory=factory, params=params, timeout=timeout, tags=tags, witness=tags if wit else []))

    nmax = 7 if quick else 9
    for which, name in (("default", "ipv4"), ("d3", "ip-address"), ("d7", "ipv4")):
        for n in range(0, nmax + 1):
            if which != "default" and (n not in (0, 3, 7)):
                continue
            for m in masks(n):
                if n >= 8 and len(m) != 3:
                    continue          # longer strings: only the masks that can be addresses (the others are covered up to 7)
                if which != "default" and len(m) not in (2, 3, 4):
                    continue
                tags = ["rejects"]
                parts = [len(p) for p in "".join("." if i in m else "d" for i in range(n)).split(".")]
                if len(m) == 3 and all(1 <= p <= 3 for p in parts):
                    tags = ["accepts", "rejects"]
                c("%s/%s/n%d/dots%s" % (name, which, n, "".join(map(str, m)) or "-"), "ipv4", dict(which=which, name=name, n=n, mask=list(m)), tags,
                  timeout=900, wit=(len(m) == 3 and n == 7))
    for which, name in (("default", "email"), ("default", "idn-email"), ("d3", "email"), ("d7", "idn-email")):
        c("%s/%s" % (name, which), "email", dict(which=which, name=name, L=4 if quick else 5), ["accepts", "rejects"])
    for fmt, which in (("date", "default"), ("date", "d3"), ("time", "d3"), ("regex", "default"), ("ipv6", "default"), ("ipv6", "d7"),
                       ("idn-hostname", "d7"), ("regex", "d3"), ("date", "d7")):
        c("wrapper/%s/%s" % (fmt, which), "wrapper", dict(fmt=fmt, which=which), ["accepts", "rejects"])
    return out
