"""C02 -- $ref is transparent: a reference behaves as the schema it designates (E1, implementation against itself on
the schema with the designated schema written in place of the reference).

The harness builds both schemas by construction: it decides which definition / document a reference is meant to
designate, encodes the reference string with its *own* RFC 6901 + RFC 3986 encoder and urljoin arithmetic, and
writes the designated schema in place for the reference-free twin.  Decoy definitions sit at every location a
wrong decoding or a wrong base would reach."""
import random
from urllib.parse import quote, urljoin

from jsonschema import RefResolver

from vf import templates as tp
from vf.harness import HarnessEscape, KIND_TYPES, Spec, multiset_eq, small

META = {
    "level": "model_checking",
    "explanation": "bounded symbolic execution of iter_errors on a reference-using schema and on its reference-free twin (symbolic instance, "
                   "symbolic leaves of the designated schemas and of keywords written next to $ref): same verdict and same multiset of "
                   "(absolute instance path, keyword); reference strings, definition names, ids and store documents come from a "
                   "combinatorially generated concrete catalogue",
    "bounds": {"names": "hostile catalogue (see NAMES)", "placements": "every applicator of the draft (one level) and two nested", "chains": "<= 3 references",
               "recursion": "through '#' and through a definition, instances nested <= 3 deep", "instances": "ints unbounded, containers <= 2, keys <= 1-2"},
    "outside": ["symbolic reference strings and names (lru_cache / urlsplit hash them natively; symbolic names are exercised at pointer level in C14)",
                "targets identified only by an embedded id (issue 371, excluded by the property)", "Draft 3 required inside property subschemas"],
    "stubs": ["message formatting", "handlers are harness functions serving catalogue documents"],
    "assumptions": ["urllib.parse.urljoin is used by the harness too (RFC 3986 arithmetic itself is trusted)"],
}

ID = {3: "id", 4: "id", 6: "$id", 7: "$id"}
NAMES = ["", "a/b", "m~n", "~1", "~01", "%25", "c%d", "0", "é", " ", "a b", "#", "?q", "definitions", "$ref", "~0~1", "/", "~"]
ROOT = "http://x.test/root.json"
OTHER = "http://x.test/other.json"


def enc(name):
    """RFC 6901 escaping, then RFC 3986 percent-encoding for use inside a URI fragment"""
    return quote(name.replace("~", "~0").replace("/", "~1"), safe="~!$&'()*+,;=:@")


def place(d, where, sub, other):
    """put schema `sub` at an applicator position; returns (schema fragment, instance kind)"""
    if where == "properties":
        return {"properties": {"k": sub, "j": other}}, "obj_int"
    if where == "items":
        return {"items": sub}, "arr_int"
    if where == "items_tuple":
        return {"items": [other, sub], "additionalItems": sub}, "arr_int"
    if where == "additionalProperties":
        return {"properties": {"j": other}, "additionalProperties": sub}, "obj_int"
    if where == "patternProperties":
        return {"patternProperties": {"^k": sub, "j$": other}}, "obj_int"
    if where == "inplace":
        return ({"extends": [other, sub]} if d == 3 else {"allOf": [other, sub]}), "int"
    if where == "anyOf":
        return ({"type": ["string", sub]} if d == 3 else {"anyOf": [{"type": "string"}, sub]}), "int"
    if where == "not":
        return ({"disallow": [sub]} if d == 3 else {"not": sub}), "int"
    if where == "dependencies":
        return {"dependencies": {"k": {"properties": {"k": sub}}}}, "obj_int"
    if where == "nested":
        return {"properties": {"k": {"items": sub}}}, "obj_arr_int"
    if where == "root":
        return sub, "int"
    raise ValueError(where)


PLACES = ["properties", "items", "items_tuple", "additionalProperties", "patternProperties", "inplace", "anyOf", "not", "dependencies", "root"]


def observe(d, schema, x, store=None, handlers=None):
    cls = tp.CLS[d]
    try:
        if store is not None or handlers is not None:
            r = RefResolver.from_schema(schema, id_of=cls.ID_OF, store=store or {}, handlers=handlers or {})
            v = cls(schema, resolver=r)
        else:
            v = cls(schema)
        return [[e.validator] + list(e.absolute_path) for e in v.iter_errors(x)]
    except Exception as e:
        raise HarnessEscape(type(e).__name__)


def T(a, i=0):
    return {"maximum": a + 7 * i}


def defs_all(a):
    """every hostile name is a definition with its own distinguishable schema"""
    return {n: T(a, i) for i, n in enumerate(NAMES)}


def arrangement(d, kind, ni, where, a, c):
    """-> (schema with references, reference-free twin, store, handlers, instance kind)"""
    idk = ID[d]
    name = NAMES[ni]
    target = T(a, ni)
    other = {"minimum": c}
    store = None
    handlers = None
    extra_root = {}
    if kind == "local":
        ref = {"$ref": "#/definitions/" + enc(name)}
    elif kind == "local+siblings":
        ref = {"$ref": "#/definitions/" + enc(name), "maximum": c, "type": "string", "enum": []}
    elif kind == "rootid-fragment":
        extra_root[idk] = ROOT
        ref = {"$ref": "#/definitions/" + enc(name)}
    elif kind == "rootid-absolute":
        extra_root[idk] = ROOT
        ref = {"$ref": ROOT + "#/definitions/" + enc(name)}
    elif kind == "rootid-relative":
        extra_root[idk] = ROOT
        ref = {"$ref": "root.json#/definitions/" + enc(name)}
    elif kind == "rootid-hash":
        extra_root[idk] = ROOT + "#"
        ref = {"$ref": "#/definitions/" + enc(name)}
    elif kind in ("store-absolute", "store-relative", "handler-absolute", "store-own-id"):
        doc = {"definitions": defs_all(a + 1)}        # same names, different schemas than the root's definitions
        target = T(a + 1, ni)
        if kind == "store-own-id":
            doc[idk] = OTHER
        if kind == "handler-absolute":
            handlers = {"http": lambda uri: doc}
        else:
            store = {OTHER: doc}
        if kind == "store-relative":
            extra_root[idk] = ROOT
            ref = {"$ref": "other.json#/definitions/" + enc(name)}
        else:
            ref = {"$ref": OTHER + "#/definitions/" + enc(name)}
    elif kind in ("store-key-hash", "store-key-case"):
        # the caller's store key is a different spelling of the same URI (trailing '#', upper-case scheme)
        doc = {"definitions": defs_all(a + 1)}
        target = T(a + 1, ni)
        store = {(OTHER + "#") if kind == "store-key-hash" else OTHER.replace("http://", "HTTP://"): doc}
        ref = {"$ref": OTHER + "#/definitions/" + enc(name)}
    elif kind == "store-back-reference":
        # root -> other#/definitions/r -> "#/definitions/<name>" which must resolve inside `other`, not inside the root
        doc = {"definitions": dict(defs_all(a + 1), r={"$ref": "#/definitions/" + enc(name)})}
        target = T(a + 1, ni)
        store = {OTHER: doc}
        ref = {"$ref": OTHER + "#/definitions/r"}
    elif kind == "chain2":
        extra_root["definitions_extra"] = {"hop1": {"$ref": "#/definitions/" + enc(name)}}
        ref = {"$ref": "#/definitions/hop1"}
    elif kind == "chain3":
        extra_root["definitions_extra"] = {"hop1": {"$ref": "#/definitions/hop2", "minimum": c}, "hop2": {"$ref": "#/definitions/" + enc(name)}}
        ref = {"$ref": "#/definitions/hop1"}
    elif kind == "whole-document":
        store = {OTHER: T(a + 2, ni)}
        target = T(a + 2, ni)
        ref = {"$ref": OTHER + ("#" if ni % 2 else "")}
    else:
        raise ValueError(kind)
    frag_ref, xkind = place(d, where, ref, other)
    frag_inl, _ = place(d, where, target, other)
    defs = defs_all(a)
    defs.update(extra_root.pop("definitions_extra", {}))
    with_ref = dict(extra_root)
    inlined = {}
    if where == "root":
        # a reference at the root short-circuits its siblings; definitions stay reachable as data
        with_ref.update(frag_ref)
        with_ref["definitions"] = defs
        inlined = dict(frag_inl)
    else:
        with_ref["definitions"] = defs
        with_ref.update(frag_ref)
        inlined.update(frag_inl)
    return with_ref, inlined, store, handlers, xkind


KINDS = ["store-key-hash", "store-key-case", "local", "local+siblings", "rootid-fragment", "rootid-absolute", "rootid-relative", "rootid-hash", "store-absolute", "store-relative",
         "handler-absolute", "store-own-id", "store-back-reference", "chain2", "chain3", "whole-document"]


def xkind_of(where):
    return place(7, where, {}, {})[1]


def transparent(d, kind, ni, where):
    xk = xkind_of(where)

    def pre(x, a, c):
        return small(x, 1, 2, 2)

    def body(x, a, c):
        with_ref, inlined, store, handlers, _ = arrangement(d, kind, ni, where, a, c)
        got = observe(d, with_ref, x, store, handlers)
        want = observe(d, inlined, x)
        return multiset_eq(got, want), ("valid" if not want else "invalid")

    return Spec([("x", KIND_TYPES[xk]), ("a", int), ("c", int)], pre, body, tags=["valid", "invalid"])


# ---- base-URI changes on the evaluation path -------------------------------------------------------

def nested_base(d, variant):
    """a subschema's id changes the base for the references below it -- and only below it"""
    idk = ID[d]

    def pre(x, a, b):
        return small(x, 1, 2, 1)

    def body(x, a, b):
        if variant == "same-relative-id-two-bases":
            # three object levels: concrete outer levels, one symbolic innermost object
            x = {"p": {"t": x}, "r": {"t": x}}
        leaf_in_dir = {"maximum": a}
        leaf_at_root = {"minimum": b}
        store = {"http://x.test/dir/leaf.json": leaf_in_dir, "http://x.test/leaf.json": leaf_at_root,
                 "http://x.test/dir/sub/leaf.json": {"enum": []}, "http://x.test/dir/": {"enum": []}}
        if variant == "dir-then-root":
            with_ref = {idk: ROOT, "properties": {"p": {idk: "dir/", "properties": {"q": {"$ref": "leaf.json"}}}, "r": {"$ref": "leaf.json"}}}
            inl = {"properties": {"p": {"properties": {"q": leaf_in_dir}}, "r": leaf_at_root}}
        elif variant == "root-then-dir":
            with_ref = {idk: ROOT, "properties": {"r": {"$ref": "leaf.json"}, "p": {idk: "dir/", "properties": {"q": {"$ref": "leaf.json"}}}},
                        "additionalProperties": {"$ref": "leaf.json"}}
            inl = {"properties": {"r": leaf_at_root, "p": {"properties": {"q": leaf_in_dir}}}, "additionalProperties": leaf_at_root}
        elif variant == "absolute-id-below":
            with_ref = {idk: ROOT, "properties": {"p": {idk: "http://x.test/dir/sub.json", "items": {"$ref": "leaf.json"}}},
                        "patternProperties": {"^r": {"$ref": "leaf.json"}}}
            inl = {"properties": {"p": {"items": leaf_in_dir}}, "patternProperties": {"^r": leaf_at_root}}
        elif variant == "target-with-own-id":
            # the target document declares its own id: references inside it are relative to that id
            store["http://x.test/dir/entry.json"] = {idk: "http://x.test/dir/entry.json", "properties": {"q": {"$ref": "leaf.json"}}}
            with_ref = {idk: ROOT, "properties": {"p": {"$ref": "dir/entry.json"}, "r": {"$ref": "leaf.json"}}}
            inl = {"properties": {"p": {"properties": {"q": leaf_in_dir}}, "r": leaf_at_root}}
        elif variant == "through-anyOf-failure":
            # the first branch fails below a base change; the second branch must see the outer base again
            with_ref = {idk: ROOT, "properties": {"r": ({"type": [{idk: "dir/", "$ref": "leaf.json"}, {"$ref": "leaf.json"}]} if d == 3 else
                                                         {"anyOf": [{idk: "dir/", "allOf": [{"$ref": "leaf.json"}]}, {"$ref": "leaf.json"}]})}}
            inl = {"properties": {"r": ({"type": [leaf_in_dir, leaf_at_root]} if d == 3 else {"anyOf": [{"allOf": [leaf_in_dir]}, leaf_at_root]})}}
            if d == 3:
                with_ref = {idk: ROOT, "properties": {"r": {"type": [{idk: "dir/", "extends": [{"$ref": "leaf.json"}]}, {"$ref": "leaf.json"}]}}}
                inl = {"properties": {"r": {"type": [{"extends": [leaf_in_dir]}, leaf_at_root]}}}
        elif variant == "same-relative-id-two-bases":
            # the same relative id string under two different bases: each must be joined against its own base
            store["http://x.test/v1/types/size.json"] = leaf_in_dir
            store["http://x.test/v2/types/size.json"] = leaf_at_root
            sub_ = lambda: {idk: "types/", "properties": {"q": {"$ref": "size.json"}}}    # noqa: E731
            with_ref = {idk: ROOT, "properties": {"p": {idk: "v1/", "properties": {"t": sub_()}}, "r": {idk: "v2/", "properties": {"t": sub_()}}}}
            inl = {"properties": {"p": {"properties": {"t": {"properties": {"q": leaf_in_dir}}}},
                                  "r": {"properties": {"t": {"properties": {"q": leaf_at_root}}}}}}
        elif variant in ("bool-target-true", "bool-target-false"):
            # a reference into another document lands on a boolean schema; the next sibling reference is local to the root
            bt = variant.endswith("true")
            store["http://x.test/other.json"] = {"definitions": {"t": bt, "n": {"enum": []}}}
            with_ref = {idk: ROOT, "definitions": {"n": leaf_at_root},
                        "properties": {"p": {"$ref": "http://x.test/other.json#/definitions/t"}, "r": {"$ref": "#/definitions/n"}},
                        "additionalProperties": {"$ref": "leaf.json"}}
            inl = {"properties": {"p": bt, "r": leaf_at_root}, "additionalProperties": leaf_at_root}
        else:
            raise ValueError(variant)
        got = observe(d, with_ref, x, store)
        want = observe(d, inl, x)
        return multiset_eq(got, want), ("valid" if not want else "invalid")

    T_ = KIND_TYPES["obj_int"] if variant == "same-relative-id-two-bases" else KIND_TYPES["obj_arr_int"] if variant == "absolute-id-below" else KIND_TYPES["obj_obj_int"] if variant in ("dir-then-root", "root-then-dir", "target-with-own-id") else KIND_TYPES["obj_int"]
    return Spec([("x", T_), ("a", int), ("b", int)], pre, body, tags=["valid", "invalid"])


NESTED = ["dir-then-root", "root-then-dir", "absolute-id-below", "target-with-own-id", "through-anyOf-failure", "same-relative-id-two-bases"]
NESTED_BOOL = ["bool-target-true", "bool-target-false"]


# ---- recursion -----------------------------------------------------------------------------------------

def recursion(d, variant):
    def pre(x, n, m):
        return small(x, 1, 2, 2) and n >= 0

    def body(x, n, m):
        if variant == "root":
            with_ref = {"items": {"$ref": "#"}, "maxItems": n, "maximum": m}
            l3 = {"maxItems": n, "maximum": m}
            l2 = {"items": l3, "maxItems": n, "maximum": m}
            l1 = {"items": l2, "maxItems": n, "maximum": m}
            inl = {"items": l1, "maxItems": n, "maximum": m}
        else:
            node = {"items": {"$ref": "#/definitions/node"}, "maxItems": n, "maximum": m}
            with_ref = {"definitions": {"node": node}, "items": {"$ref": "#/definitions/node"}, "minItems": 1}
            l3 = {"maxItems": n, "maximum": m}
            l2 = {"items": l3, "maxItems": n, "maximum": m}
            l1 = {"items": l2, "maxItems": n, "maximum": m}
            inl = {"items": l1, "minItems": 1}
        got = observe(d, with_ref, x)
        want = observe(d, inl, x)
        return multiset_eq(got, want), ("valid" if not want else "invalid")

    return Spec([("x", KIND_TYPES["arr_arr_int"]), ("n", int), ("m", int)], pre, body, tags=["valid", "invalid"])


def conditions(tier, seed, active):
    out = []
    rng = random.Random(seed)
    quick = tier == "quick"

    def c(cid, factory, params, timeout=900, wit=False):
        out.append(dict(id=cid, module=__name__, factory=factory, params=params, timeout=timeout, tags=["valid", "invalid"],
                        witness=["valid", "invalid"] if wit else []))

    for d in (3, 4, 6, 7):
        for v in NESTED + (NESTED_BOOL if d >= 6 else []):
            c("nested-base/%s/d%d" % (v, d), "nested_base", dict(d=d, variant=v), timeout=1500, wit=(d == 7))
        for v in ("root", "definition"):
            c("recursion/%s/d%d" % (v, d), "recursion", dict(d=d, variant=v), timeout=1500, wit=(d == 4))
        combos = [(k, ni, w) for k in KINDS for ni in range(len(NAMES)) for w in PLACES]
        if quick:
            # every kind, every name and every placement at least once per draft, plus a seeded sample of the product
            chosen = set()
            for i, k in enumerate(KINDS):
                chosen.add((k, rng.randrange(len(NAMES)), PLACES[(i + d) % len(PLACES)]))
            for ni in range(len(NAMES)):
                chosen.add((rng.choice(KINDS[:2]), ni, rng.choice(["properties", "items", "inplace"])))
            for w in PLACES:
                chosen.add((rng.choice(KINDS), rng.randrange(len(NAMES)), w))
            chosen |= set(rng.sample(combos, 8))
            combos = sorted(chosen)
        else:
            combos = sorted(set(rng.sample(combos, 150)) | {(k, ni, "properties") for k in KINDS for ni in range(0, len(NAMES), 3)}
                            | {("local", ni, w) for ni in range(len(NAMES)) for w in PLACES})
        for k, ni, w in combos:
            c("ref/%s/name%d/%s/d%d" % (k, ni, w, d), "transparent", dict(d=d, kind=k, ni=ni, where=w), wit=(rng.random() < 0.05))
    return out
