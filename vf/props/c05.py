"""C05 -- every violated keyword is reported, independently of its sibling keywords (E1)."""
from vf import gate, refmodel, templates as tp
from vf.harness import HarnessEscape, esig, multiset_eq

META = {
    "level": "model_checking",
    "explanation": "bounded symbolic execution; (1) independence: the error signatures (keyword, message placeholder, paths, context) of a "
                   "schema object equal the multiset union over its keywords of the errors of the schema restricted to that keyword plus "
                   "the siblings it consults; (2) completeness: the multiset of (top-level keyword, instance path) equals what an "
                   "independent specification interpreter lists as violations (one per violation)",
    "bounds": {"templates": "T2 groups and T4 pairs (2-5 keywords), T1 for completeness", "strings": "<= 2", "containers": "<= 2", "integers": "unbounded"},
    "outside": ["message text (placeholders compared)"],
    "stubs": ["message formatting"],
    "assumptions": ["refmodel is gated on the official test suite (verdicts); its violation counts follow the specification's notion of "
                    "one failing (keyword, location) each, with one error for all extra items/properties under a false schema"],
}
SIBLINGS = {
    "additionalProperties": ("properties", "patternProperties"),
    "additionalItems": ("items",),
    "if": ("then", "else"),
    "minimum": ("exclusiveMinimum",),
    "maximum": ("exclusiveMaximum",),
}


def attributed(e):
    sp = list(e.schema_path)
    if not sp:
        return None
    k = sp[0]
    return "if" if k in ("then", "else") else k


def check(d, schema, x):
    cls = tp.CLS[d]
    try:
        full = list(cls(schema).iter_errors(x))
    except Exception as e:
        raise HarnessEscape(type(e).__name__)
    tag = "valid" if not full else ("one" if len(full) == 1 else "many")
    if not isinstance(schema, dict):
        want = refmodel.violations(d, schema, x)
        return len(full) == len(want), tag
    # (1) independence
    union = []
    for k in schema:
        if k not in cls.VALIDATORS:
            continue
        part = {k: schema[k]}
        sibs = SIBLINGS.get(k, ())
        if d >= 6 and k in ("minimum", "maximum"):
            sibs = ()
        for s in sibs:
            if s in schema:
                part[s] = schema[s]
        try:
            es = list(cls(part).iter_errors(x))
        except Exception as e:
            raise HarnessEscape(type(e).__name__)
        for e in es:
            if attributed(e) == k:
                union.append(esig(e))
    if not multiset_eq([esig(e) for e in full], union):
        return False, tag
    # (2) completeness against the specification
    got = [[attributed(e)] + list(e.path) for e in full]
    want = [[kw] + list(p) for kw, p in refmodel.violations(d, schema, x)]
    return multiset_eq(got, want), tag


def single(name, draft, kind, L=2, N=2, N2=None, pair=None, tags=()):
    return tp.make_spec(name, draft, kind, check, L=L, N=N, N2=N2, pair=pair, tags=tags)


def preflight(tier):
    r = gate.run()
    return r["disagreements"] == 0 and r["cases"] > 1500, r


def conditions(tier, seed, active):
    quick = tier == "quick"
    out = tp.gen_conditions(__name__, "single", tier, seed, rate={"T1": 0.5, "T2": 1.0, "T3": 0.06}, pairs_quick=30, rest=False, heavy_L=1,
                            tags_from_template=False)
    for c in out:
        c["tags"] = []
        c["witness"] = ["many"] if (not quick and "/rest" not in c["id"]) else []
    return out
