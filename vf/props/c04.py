"""C04 -- all entry points agree: is_valid, iter_errors, validate(), jsonschema.validate (E1)."""
import random

import jsonschema
from jsonschema import FormatChecker, SchemaError, ValidationError
from jsonschema.exceptions import best_match

from vf import cand, templates as tp
from vf.harness import HarnessEscape, Spec, esig, small

META = {
    "level": "model_checking",
    "explanation": "bounded symbolic execution of the four entry points on one symbolic (schema leaves, instance) pair per path: "
                   "is_valid <=> iter_errors empty <=> validate() silent <=> jsonschema.validate silent; validate() raises an error with "
                   "the signature (keyword, message placeholder, paths, context recursively) of the first iterated error; "
                   "jsonschema.validate raises a context-free member of the errors' context closure; a second call repeats the result; "
                   "invalid schemas: SchemaError carries the fields of the first metaschema violation and the (poisoned) instance is never touched",
    "bounds": {"templates": "T1/T2 all, T3 sample (all in thorough)", "strings": "<= 2", "containers": "<= 2", "integers": "unbounded"},
    "outside": ["best_match's choice is only constrained as the property states", "message text (placeholders compared)"],
    "stubs": ["message formatting"],
    "assumptions": ["CrossHair's library models"],
}
META_ID = {3: "http://json-schema.org/draft-03/schema#", 4: "http://json-schema.org/draft-04/schema#",
           6: "http://json-schema.org/draft-06/schema#", 7: "http://json-schema.org/draft-07/schema#"}


class Poison:
    """an instance nobody may look at"""
    def _no(self, *a, **k):
        raise HarnessEscape("the instance was touched before the schema was rejected")
    __getitem__ = __iter__ = __len__ = __contains__ = __eq__ = __bool__ = __hash__ = __lt__ = __le__ = __gt__ = __ge__ = _no
    items = keys = values = get = _no


def closure(errs):
    out, stack = [], list(errs)
    while stack:
        e = stack.pop()
        out.append(e)
        stack.extend(e.context)
    return out


def raised_by(f, *a, **k):
    try:
        f(*a, **k)
        return None
    except ValidationError as e:
        return e
    except Exception as e:
        raise HarnessEscape(type(e).__name__)


def check(d, schema, x, fc=False, variant="cls"):
    cls = tp.CLS[d]
    kw = {"format_checker": FormatChecker()} if fc else {}
    v = cls(schema, **kw)
    try:
        errs = list(v.iter_errors(x))
        valid = v.is_valid(x)
        errs2 = list(v.iter_errors(x))
    except Exception as e:
        raise HarnessEscape(type(e).__name__)
    tag = "valid" if valid else "invalid"
    if valid != (not errs):
        return False, tag
    sigs = [esig(e) for e in errs]
    if sigs != [esig(e) for e in errs2]:
        return False, tag
    r1 = raised_by(v.validate, x)
    if (r1 is None) != valid:
        return False, tag
    if r1 is not None and esig(r1) != sigs[0]:
        return False, tag
    pool = [esig(e) for e in closure(errs)]
    # module-level validate(): with the class given explicitly, or chosen from $schema (one of the two per condition, `variant`)
    target = schema
    mkw = dict(kw)
    if variant == "$schema" and isinstance(schema, dict):
        target = dict(schema)
        target["$schema"] = META_ID[d]
    else:
        mkw["cls"] = cls
    try:
        jsonschema.validate(x, target, **mkw)
        r2 = None
    except ValidationError as e:
        r2 = e
    except SchemaError:
        # the template is not a valid schema of this draft: check_schema must agree, and that is all there is to compare
        try:
            cls.check_schema(schema)
            return False, tag
        except SchemaError:
            return True, tag
    except Exception as e:
        raise HarnessEscape(type(e).__name__)
    if (r2 is None) != valid:
        return False, tag
    if r2 is not None:
        try:
            bm = best_match(v.iter_errors(x))
        except Exception as e:
            raise HarnessEscape(type(e).__name__)
        if bm is None or esig(bm) != esig(r2):
            return False, tag           # it must be best_match of the errors (the heuristic itself is not judged)
        if len(r2.context) != 0:
            return False, tag
        s2 = esig(r2)
        found = False
        for p in pool:
            if p == s2:
                found = True
                break
        if not found:
            return False, tag
    return True, tag


def single(name, draft, kind, L=2, N=2, N2=None, pair=None, tags=("valid", "invalid"), fc=False, variant="cls"):
    return tp.make_spec(name, draft, kind, lambda d, s, x: check(d, s, x, fc, variant), L=L, N=N, N2=N2, pair=pair, tags=tags)


def invalid_schema(d, k, kind):
    """jsonschema.validate on a schema check_schema rejects: SchemaError == first metaschema violation, instance untouched"""
    def pre(v):
        return small(v, 2, 2, 2) and cand.value_ok(d, kind, v)

    def body(v):
        cls = tp.CLS[d]
        schema = {k: cand.value_of(d, kind, v)}
        try:
            first = next(cls(cls.META_SCHEMA).iter_errors(schema), None)
        except Exception as e:
            raise HarnessEscape(type(e).__name__)
        if first is None:
            return True, "accepted"           # an accepted schema: the instance is (rightly) examined; nothing to compare here
        try:
            jsonschema.validate(Poison(), schema, cls=cls)
            got = None
        except SchemaError as e:
            got = e
        except HarnessEscape:
            if first is None:
                return True, "accepted"       # accepted schema: the instance is (rightly) examined
            raise
        except Exception as e:
            if first is None:
                return True, "accepted"
            raise HarnessEscape(type(e).__name__)
        if first is None:
            return got is None, "accepted"
        if got is None:
            return False, "rejected"
        same = (esig(got) == esig(first) and got.validator_value == first.validator_value and got.instance == first.instance
                and got.schema == first.schema and got.cause is first.cause)
        try:
            cls.check_schema(schema)
            return False, "rejected"
        except SchemaError as e2:
            same = same and esig(e2) == esig(first)
        return same, "rejected"

    return Spec([("v", cand.VALUE_KINDS[kind])], pre, body, tags=[])


def invalid_nonobject(d, kind):
    """a schema that is not even an object (or boolean): SchemaError before anything else happens"""
    from typing import List
    from vf.harness import Scalar
    T = {"scalar": Scalar, "arr_int": List[int], "arr_str": List[str]}[kind]

    def pre(v):
        return small(v, 2, 2)

    def body(v):
        cls = tp.CLS[d]
        if d >= 6 and isinstance(v, bool):
            return True, "boolean-schema"
        try:
            jsonschema.validate(Poison(), v, cls=cls)
            return False, "accepted"
        except SchemaError:
            return True, "rejected"
        except HarnessEscape:
            raise
        except Exception as e:
            raise HarnessEscape(type(e).__name__)

    return Spec([("v", T)], pre, body, tags=["rejected"])


def conditions(tier, seed, active):
    quick = tier == "quick"
    out = tp.gen_conditions(__name__, "single", tier, seed, rate={"T1": 0.3, "T2": 0.5, "T3": 0.08}, pairs_quick=8, rest=not quick,
                            heavy_quick=False, t1_obj_small=True,
                            only=(lambda t: not t.name.endswith("_scalar_members")) if quick else None)
    rng = random.Random(seed + 1)
    fcs = tp.gen_conditions(__name__, "single", tier, seed + 7, groups=("T2",), rate={"T2": 0.15 if quick else 1.0}, rest=False,
                            extra_params={"fc": True})
    for c in fcs:
        c["id"] += "+fc"
    out += fcs
    for i, c in enumerate(out):
        if i % 2:
            c["params"] = dict(c["params"], variant="$schema")     # the class is chosen from $schema in every other condition
            c["id"] += "@$schema"
    for d in (3, 4, 6, 7):
        for kind in ("scalar", "arr_int", "arr_str"):
            out.append(dict(id="invalid-schema/non-object/%s/d%d" % (kind, d), module=__name__, factory="invalid_nonobject",
                            params=dict(d=d, kind=kind), timeout=600, tags=["rejected"], witness=[]))
        for k in cand.keywords(d):
            kinds = cand.kinds_for(k)
            kinds = rng.sample(cand.BASE_KINDS, 2) if quick else rng.sample(kinds, min(5, len(kinds)))
            for kind in kinds:
                out.append(dict(id="invalid-schema/%s/%s/d%d" % (k, kind, d), module=__name__, factory="invalid_schema",
                                params=dict(d=d, k=k, kind=kind), timeout=900, tags=[], witness=[]))
    return out
