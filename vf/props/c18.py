"""C18 -- validators that share no resolver are independent under any interleaving (E1 for iterator
interleavings; preemptive threads are outside this engine)."""
from typing import List

from jsonschema import FormatChecker, RefResolver

from vf import templates as tp
from vf.harness import HarnessEscape, Spec, pick

META = {
    "level": "model_checking",
    "explanation": "bounded symbolic execution of interleavings: a symbolic schedule decides which of two (or three) error iterators, owned "
                   "by different validator objects, advances next; the validators are built from schema pairs that collide on every key "
                   "a shared cache could use (same base URI, same $ref strings designating different definitions, same remote URL served "
                   "by different stores, same pattern text, same format name with different checkers); each iterator must yield exactly "
                   "what it yields when run alone",
    "bounds": {"schedule": "4 steps quick / 5 thorough, then both iterators are drained", "errors per iterator": "<= 3", "instances": "arrays of <= 2 ints"},
    "outside": ["preemptive thread schedules (CrossHair executes one thread; no byte-code level concurrency engine is available): a "
                "cache hoisted to module or class level already breaks sequential alternation and is caught by this form"],
    "stubs": ["message formatting"],
    "assumptions": ["CrossHair's library models"],
}
ID = {3: "id", 4: "id", 6: "$id", 7: "$id"}
REMOTE = "http://r.test/defs.json"


def pair(d, collide):
    idk = ID[d]
    if collide == "ref":
        s1 = {idk: "http://x.test/s.json", "definitions": {"d": {"maximum": 3}}, "items": {"$ref": "#/definitions/d"}}
        s2 = {idk: "http://x.test/s.json", "definitions": {"d": {"minimum": 7}}, "items": {"$ref": "#/definitions/d"}}
        return (s1, {}, None), (s2, {}, None)
    if collide == "metaschema-id":
        mid = {3: "http://json-schema.org/draft-03/schema#", 4: "http://json-schema.org/draft-04/schema#",
               6: "http://json-schema.org/draft-06/schema#", 7: "http://json-schema.org/draft-07/schema#"}[d]
        s1 = {idk: mid, "definitions": {"nonNegativeInteger": {"maximum": 3}}, "items": {"$ref": "#/definitions/nonNegativeInteger"}}
        s2 = {idk: mid, "definitions": {"nonNegativeInteger": {"minimum": 7}}, "items": {"$ref": "#/definitions/nonNegativeInteger"}}
        return (s1, {}, None), (s2, {}, None)
    if collide == "same-schema-object":
        # one schema object, two validators, each with the resolver the class builds by default; a reference into another document
        # (a bundled metaschema: always available) followed by a local reference of the same name
        meta = {3: "http://json-schema.org/draft-03/schema#/properties/minItems", 4: "http://json-schema.org/draft-04/schema#/definitions/positiveInteger",
                6: "http://json-schema.org/draft-06/schema#/definitions/nonNegativeInteger", 7: "http://json-schema.org/draft-07/schema#/definitions/nonNegativeInteger"}[d]
        local = meta.split("#")[1]
        s = {"definitions": {local.split("/")[-1]: {"maximum": 3}}, "properties": {"minItems": {"maximum": 3}},
             "items": [{"$ref": meta}, {"$ref": "#" + local}]}
        return (s, None, None), (s, None, None)
    if collide == "remote":
        s = {"items": {"$ref": REMOTE + "#/definitions/d"}}
        return (s, {REMOTE: {"definitions": {"d": {"maximum": 3}}}}, None), (dict(s), {REMOTE: {"definitions": {"d": {"minimum": 7}}}}, None)
    if collide == "relative":
        s1 = {idk: "http://x.test/a/s.json", "items": {"$ref": "t.json"}}
        s2 = {idk: "http://x.test/b/s.json", "items": {"$ref": "t.json"}}
        return (s1, {"http://x.test/a/t.json": {"maximum": 3}}, None), (s2, {"http://x.test/b/t.json": {"minimum": 7}}, None)
    if collide in ("format", "format-str"):
        f1 = FormatChecker(formats=())
        f2 = FormatChecker(formats=())
        if collide == "format":
            f1.checks("f")(lambda i: not isinstance(i, int) or i <= 3)
            f2.checks("f")(lambda i: not isinstance(i, int) or i >= 7)
        else:
            f1.checks("f")(lambda i: not isinstance(i, str) or len(i) <= 1)
            f2.checks("f")(lambda i: not isinstance(i, str) or len(i) == 0)
        s = {"items": {"format": "f"}}
        return (s, {}, f1), (dict(s), {}, f2)
    if collide == "pattern":
        s1 = {"items": {"maximum": 3}, "patternProperties": {"^a": {"maximum": 3}}}
        s2 = {"items": {"minimum": 7}, "patternProperties": {"^a": {"minimum": 7}}}
        return (s1, {}, None), (s2, {}, None)
    raise ValueError(collide)


def expected(collide, which, inst):
    """what the validator built from schema `which` (0 or 1) of the pair must report, written down independently of any run in this
    process (a baseline computed in-process could already be poisoned by state shared between validators)"""
    out = []
    if collide == "same-schema-object":
        if len(inst) > 0 and inst[0] < 0:
            out.append(["minimum", 0])
        if len(inst) > 1 and inst[1] > 3:
            out.append(["maximum", 1])
        return out
    for i, e in enumerate(inst):
        if collide in ("format-str",):
            bad = len(e) > 1 if which == 0 else len(e) > 0
            kw = "format"
        elif collide == "format":
            bad = e > 3 if which == 0 else e < 7
            kw = "format"
        else:
            bad = e > 3 if which == 0 else e < 7
            kw = "maximum" if which == 0 else "minimum"
        if bad:
            out.append([kw, i])
    return out


def make(d, spec):
    schema, store, fc = spec
    cls = tp.CLS[d]
    if not store:
        return cls(schema, format_checker=fc)          # the resolver the class creates by default ("validators that share no resolver")
    return cls(schema, resolver=RefResolver.from_schema(schema, id_of=cls.ID_OF, store=store), format_checker=fc)


def summ(errs):
    return [[e.validator] + list(e.absolute_path) for e in errs]


STRS = ["", "a", "ab", "b"]


def interleave(d, collide, steps, third=False, same=False, built=False):
    strs_built = built and collide == "format-str"
    strs = collide == "format-str" and not built

    def pre(x, y, sched):
        if not (len(x) <= 2 and len(y) <= 2 and len(sched) == steps):
            return False
        if strs_built:
            if len(x) > 1 or len(y) > 1:          # catalogue strings are enumerated by index: one element per validator keeps this small
                return False
            for e in x:
                if not (0 <= e < len(STRS)):
                    return False
            for e in y:
                if not (0 <= e < len(STRS)):
                    return False
        if strs:
            for e in x:
                if len(e) > 1:
                    return False
            for e in y:
                if len(e) > 1:
                    return False
        return True

    def body(x, y, sched):
        if built:
            # instances assembled from scalars inside the harness: the element objects keep their identity across iterators
            # (proxies of symbolic containers are re-created on access), strings come from a concrete catalogue (hashable natively)
            if strs_built:
                x = [pick(STRS, i) for i in x]
                y = [pick(STRS, i) for i in y]
            else:
                x = [e for e in x]
                y = [e for e in y]
        if same:
            y = x                    # the very same instance object goes to both validators
        a, b = pair(d, collide)
        try:
            alone = [summ(list(make(d, a).iter_errors(x))), summ(list(make(d, b).iter_errors(y)))]
            vs = [make(d, a), make(d, b)]
            insts = [x, y]
            if third:
                vs.append(make(d, a))
                insts.append(y)
                alone.append(summ(list(make(d, a).iter_errors(y))))
            its = [v.iter_errors(i) for v, i in zip(vs, insts)]
            got = [[] for _ in vs]
            done = [False for _ in vs]
            for s in sched:
                i = (1 if s else 0) if not third else (s % len(vs))
                if not done[i]:
                    e = next(its[i], None)
                    if e is None:
                        done[i] = True
                    else:
                        got[i].append(e)
            for i in range(len(vs)):
                got[i].extend(list(its[i]))
        except Exception as e:
            raise HarnessEscape(type(e).__name__)
        which = [0, 1, 0]
        for i in range(len(vs)):
            if summ(got[i]) != alone[i]:
                return False, "diverged"
            if summ(got[i]) != expected(collide, which[i], insts[i]):
                return False, "diverged"
        n = len(alone[0]) + len(alone[1])
        return True, ("errors" if n else "none")

    T = List[int] if third else List[bool]
    E = List[str] if strs else List[int]
    return Spec([("x", E), ("y", E), ("sched", T)], pre if not third else (lambda x, y, sched: pre(x, y, sched) and all(0 <= s < 3 for s in sched)),
                body, tags=["errors", "none"])


def cube(d, collide, steps, prefix, third=False, same=False, built=False):
    spec = interleave(d, collide, steps, third, same, built)
    inner = spec.pre

    def pre(x, y, sched):
        if not inner(x, y, sched):
            return False
        for i, p in enumerate(prefix):
            if bool(sched[i]) != bool(p) and not third:
                return False
            if third and sched[i] != p:
                return False
        return True

    spec.pre = pre
    return spec


COLLIDE = ["ref", "remote", "relative", "format", "format-str", "pattern", "metaschema-id", "same-schema-object"]


QUICK = {7: ["ref", "format-str", "metaschema-id", "same-schema-object"], 4: ["relative", "pattern"]}


def conditions(tier, seed, active):
    import itertools
    out = []
    quick = tier == "quick"
    import os
    deep = bool(os.environ.get("VERIF_DEEP"))       # five-step schedules, three validators, Drafts 3/6: defined, not run end to end in the build round
    steps = 5 if deep else 4
    for d in (3, 4, 6, 7):
        cols = QUICK.get(d, []) if quick else (COLLIDE if d in (4, 7) else (["ref", "relative"] if deep else []))
        for col in cols:
            for prefix in itertools.product((0, 1), repeat=2):
                out.append(dict(id="two/%s/d%d/steps%d/prefix%s" % (col, d, steps, "".join(map(str, prefix))), module=__name__, factory="cube",
                                params=dict(d=d, collide=col, steps=steps, prefix=list(prefix)), timeout=1500 if quick else 3600,
                                tags=["errors"], witness=["errors"] if prefix == (0, 1) and d == 7 else []))
        for col in (() if (quick or d not in (4, 7)) else ("ref", "remote")):
            for prefix in itertools.product((0, 1), repeat=2):
                out.append(dict(id="same-instance/%s/d%d/steps%d/prefix%s" % (col, d, steps, "".join(map(str, prefix))), module=__name__, factory="cube",
                                params=dict(d=d, collide=col, steps=steps, prefix=list(prefix), same=True), timeout=1500 if quick else 3600,
                                tags=["errors"], witness=[]))
        for col, sm in ((("ref", True), ("format-str", False)) if (d == 7 or (not quick and d == 4)) else ()):
            for prefix in itertools.product((0, 1), repeat=2):
                out.append(dict(id="built/%s/d%d/steps%d/prefix%s" % (col, d, steps, "".join(map(str, prefix))), module=__name__, factory="cube",
                                params=dict(d=d, collide=col, steps=steps, prefix=list(prefix), same=sm, built=True), timeout=1500 if quick else 3600,
                                tags=["errors"], witness=[]))
        if deep:
            for p0 in range(3):
                for p1 in (range(1) if quick else range(3)):
                    out.append(dict(id="three/ref/d%d/steps3/first%d%d" % (d, p0, p1), module=__name__, factory="cube",
                                    params=dict(d=d, collide="ref", steps=3, prefix=[p0, p1], third=True), timeout=1500 if quick else 3600,
                                    tags=["errors"], witness=[]))
    return out
