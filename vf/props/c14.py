"""C14 -- JSON-Pointer fragments resolve to exactly the addressed value, or fail cleanly (E1 on
RefResolver.resolve_fragment with symbolic documents, keys and fragments)."""
from typing import Dict, List

from jsonschema import RefResolver
from jsonschema.exceptions import RefResolutionError

from vf.harness import HarnessEscape, Spec, pick, small

META = {
    "level": "model_checking",
    "explanation": "bounded symbolic execution of RefResolver.resolve_fragment: (a) the harness encodes a symbolic key path with its "
                   "own RFC 6901 / RFC 3986 encoder and the real method must return exactly that member or raise RefResolutionError "
                   "when it is absent; (b) a raw symbolic fragment is compared with an independent character-by-character decoder; "
                   "(c) array index tokens from a concrete catalogue against arrays of symbolic length",
    "bounds": {"keys": "<= 2 code points, any code point", "documents": "<= 2 symbolic members per object; two/three levels through concrete wrapper documents", "raw fragments": "<= 5 characters quick, <= 6 thorough",
               "with '%'": "alphabet {% ~ / 0 1 2 5 a}", "arrays": "<= 3 elements, tokens from the catalogue"},
    "outside": ["fragments that are not JSON pointers (no leading '/')", "pointers with a '~' not followed by 0 or 1",
                "percent-escapes over unrestricted alphabets (unquote drops to bytes and realizes characters)"],
    "stubs": ["message formatting"],
    "assumptions": ["CrossHair's models of str.replace/split/startswith and of dict lookup with symbolic keys"],
}

TOKENS = ["0", "1", "2", "3", "-", "-1", "01", "+1", " 1", "1_0", "1.0", "１", "", "00", "1 ", "0x1", "1e0"]
PCT_ALPHABET = "%~/0125a"


def esc(k):
    return k.replace("~", "~0").replace("/", "~1")


def resolve_once(doc, frag):
    r = RefResolver("", {})
    try:
        return ("ok", r.resolve_fragment(doc, frag))
    except RefResolutionError:
        return ("unresolvable", None)
    except Exception as e:
        raise HarnessEscape(type(e).__name__)


def resolve(doc, frag):
    first = resolve_once(doc, frag)
    second = resolve_once(doc, frag)       # the same fragment again, through a fresh resolver
    if not same(first, second):
        raise HarnessEscape("second resolution of the same fragment differs from the first")
    return first


def well_formed(f):
    """f is '' or a JSON pointer: starts with '/', every '~' is followed by '0' or '1'."""
    if f == "":
        return True
    if f[0] != "/":
        return False
    i = 0
    n = len(f)
    while i < n:
        if f[i] == "~":
            if i + 1 >= n or (f[i + 1] != "0" and f[i + 1] != "1"):
                return False
            i += 2
        else:
            i += 1
    return True


def decode(f):
    """independent RFC 6901 decoder: list of reference tokens"""
    if f == "":
        return []
    toks, cur, i, n = [], "", 1, len(f)
    while i < n:
        c = f[i]
        if c == "/":
            toks.append(cur)
            cur = ""
            i += 1
        elif c == "~":
            cur += "/" if f[i + 1] == "1" else "~"
            i += 2
        else:
            cur += c
            i += 1
    toks.append(cur)
    return toks


def is_index(tok):
    if tok == "0":
        return True
    if tok == "" or tok[0] == "0":
        return False
    for c in tok:
        if c not in "0123456789":
            return False
    return True


def expected(doc, toks):
    """('ok', value) / ('unresolvable', None) per RFC 6901 on plain JSON data."""
    cur = doc
    for t in toks:
        if isinstance(cur, dict):
            if t in cur:
                cur = cur[t]
            else:
                return ("unresolvable", None)
        elif isinstance(cur, list):
            if is_index(t) and int(t) < len(cur):
                cur = cur[int(t)]
            else:
                return ("unresolvable", None)
        else:
            return ("unresolvable", None)
    return ("ok", cur)


def same(got, want):
    if got[0] != want[0]:
        return False
    if got[0] == "unresolvable":
        return True
    return got[1] is want[1] or (type(got[1]) is type(want[1]) and got[1] == want[1])


def raw(n, pct=False, nested=False):
    """raw symbolic fragment of exactly n characters against a symbolic object"""
    def pre(doc, f):
        if len(f) != n or not small(doc, 2, 2):
            return False
        if pct:
            for c in f:
                if c not in PCT_ALPHABET:
                    return False
            if "%" not in f:
                return False
        elif "%" in f:
            return False
        return well_formed(f)

    def body(doc, f):
        if pct:
            from urllib.parse import unquote
            g = unquote(f)          # the harness's own percent-decoding happens on the concrete alphabet only
            if not well_formed(g):
                return True, "malformed-after-decoding"
        else:
            g = f
        if nested:                  # the symbolic pointer continues a concrete prefix into a wrapper document
            ok = True
            tag = None
            wrapper = {"o": doc, "l": [7, doc], "": {"~": doc}}
            for prefix in ("/o", "/l/1", "//~0"):
                got = resolve(wrapper, prefix + f)
                want = expected(wrapper, decode(prefix + g))
                ok = ok and same(got, want)
                tag = got[0]
            return ok, tag
        got = resolve(doc, f)
        want = expected(doc, decode(g))
        return same(got, want), got[0]

    # (keys have at most 2 code points, so a single-token pointer longer than 5 characters cannot address anything)
    return Spec([("doc", Dict[str, int]), ("f", str)], pre, body, tags=(["ok", "unresolvable"] if 1 <= n <= 5 else (["ok"] if n == 0 else ["unresolvable"])))


def roundtrip(L=2, pct=False):
    """the harness encodes a symbolic key; the real method must find exactly that member"""
    def pre(doc, k):
        if not small(doc, 2, 2) or len(k) > L:
            return False
        if pct:
            for c in k:
                if c not in PCT_ALPHABET:
                    return False
            return "%" in k
        return "%" not in k

    def body(doc, k):
        frag = "/" + esc(k)
        if pct:
            frag = frag.replace("%", "%25")
        got = resolve(doc, frag)
        want = ("ok", doc[k]) if k in doc else ("unresolvable", None)
        return same(got, want), got[0]

    return Spec([("doc", Dict[str, int]), ("k", str)], pre, body, tags=["ok", "unresolvable"])


def roundtrip_pct3():
    """keys of the form % x y (they look like percent escapes themselves): the pointer must carry them as %25xy"""
    def pre(doc, k):
        if not small(doc, 3, 1) or len(k) != 3 or k[0] != "%":
            return False
        for c in k[1:]:
            if c not in "0125aAfF":
                return False
        for q in doc:
            if len(q) != 3 and len(q) != 1:
                return False
        return True

    def body(doc, k):
        frag = "/" + esc(k).replace("%", "%25")
        got = resolve(doc, frag)
        want = ("ok", doc[k]) if k in doc else ("unresolvable", None)
        return same(got, want), got[0]

    return Spec([("doc", Dict[str, int]), ("k", str)], pre, body, tags=["ok", "unresolvable"])


def roundtrip2(L=1, form="prefix"):
    """two-level paths: a symbolic member under concrete prefixes / a symbolic member holding an array"""
    if form == "prefix":
        def pre(doc, k):
            return small(doc, L, 2) and len(k) <= L and "%" not in k

        def body(doc, k):
            wrapper = {"o": doc, "l": [7, doc]}
            want = ("ok", doc[k]) if k in doc else ("unresolvable", None)
            got = resolve(wrapper, "/o/" + esc(k))
            return same(got, want) and same(resolve(wrapper, "/l/1/" + esc(k)), want), got[0]

        return Spec([("doc", Dict[str, int]), ("k", str)], pre, body, tags=["ok", "unresolvable"])

    def pre2(arrs, k):
        return small(arrs, L, 2) and len(k) <= L and "%" not in k

    def body2(arrs, k):
        got = resolve(arrs, "/" + esc(k) + "/0")
        if k in arrs and len(arrs[k]) > 0:
            want = ("ok", arrs[k][0])
        else:
            want = ("unresolvable", None)
        return same(got, want), got[0]

    return Spec([("arrs", Dict[str, List[int]]), ("k", str)], pre2, body2, tags=["ok", "unresolvable"])


HOSTILE = ["", "a/b", "m~n", "~1", "~01", "~0", "~", "/", "%25", "c%d", "0", "é", " ", "a b", "#", "?q", "~0~1", "~10", "a~1b", '"', "\\"]


def hostile_names():
    """concrete hostile member names (native caches keyed by the fragment text see concrete strings), every one next to the members a
    wrong decoding would reach; each pointer is resolved twice"""
    def pre(ni, v):
        return 0 <= ni < len(HOSTILE)

    def body(ni, v):
        doc = {}
        for i, n in enumerate(HOSTILE):
            doc[n] = v + i
        name = pick(HOSTILE, ni)
        frag = "/" + esc(name).replace("%", "%25").replace(" ", "%20").replace('"', "%22").replace("#", "%23").replace("?", "%3F")
        got = resolve({"x": doc, "": doc}, "/x" + frag)
        want = ("ok", doc[name])
        got2 = resolve(doc, frag)
        return same(got, want) and same(got2, want), got[0]

    return Spec([("ni", int), ("v", int)], pre, body, tags=["ok"])


def array_tokens(target="list"):
    """index tokens from the catalogue against an array of symbolic length, a string, and scalars"""
    if target == "list":
        T = List[int]
    elif target == "str":
        T = str
    else:
        T = int

    def pre(v, ti):
        return 0 <= ti < len(TOKENS) and (target != "list" or len(v) <= 3) and (target != "str" or len(v) <= 3)

    def body(v, ti):
        tok = pick(TOKENS, ti)
        doc = {"a": v, "b": None, "c": True}
        got = resolve(doc, "/a/" + tok)
        want = expected(doc, ["a", tok])
        ok = same(got, want)
        got2 = resolve(doc, "/b/" + tok)
        got3 = resolve(doc, "/c/" + tok)
        return ok and got2[0] == "unresolvable" and got3[0] == "unresolvable", got[0]

    return Spec([("v", T), ("ti", int)], pre, body, tags=["ok", "unresolvable"] if target == "list" else ["unresolvable"])


def whole(kind="obj"):
    """the empty fragment returns the document itself"""
    T = Dict[str, int] if kind == "obj" else List[int]

    def pre(doc):
        return small(doc, 2, 2)

    def body(doc):
        got = resolve(doc, "")
        return got[0] == "ok" and got[1] is doc, got[0]

    return Spec([("doc", T)], pre, body, tags=["ok"])


def conditions(tier, seed, active):
    out = []

    def c(cid, factory, params, tags, timeout=300):
        out.append(dict(id=cid, module=__name__, factory=factory, params=params, timeout=timeout, tags=tags, witness=tags))

    nmax = 4 if tier == "quick" else 6
    for n in range(0, nmax + 1):
        c("raw/len%d" % n, "raw", dict(n=n), (["ok", "unresolvable"] if 1 <= n <= 5 else (["ok"] if n == 0 else ["unresolvable"])), timeout=1800 if n >= 5 else 300)
    for n in range(0, 4 if tier == "quick" else 5):
        c("raw-nested/len%d" % n, "raw", dict(n=n, nested=True), ["ok", "unresolvable"] if n else ["ok"], timeout=900)
    for n in range(1, 4 if tier == "quick" else 5):
        c("raw-pct/len%d" % n, "raw", dict(n=n, pct=True), [], timeout=600)
    c("roundtrip/L1", "roundtrip", dict(L=1), ["ok", "unresolvable"])
    c("roundtrip/L2", "roundtrip", dict(L=2), ["ok", "unresolvable"], timeout=600)
    if tier == "thorough":
        c("roundtrip/L3", "roundtrip", dict(L=3), ["ok", "unresolvable"], timeout=2400)
    c("roundtrip-pct/L1", "roundtrip", dict(L=1, pct=True), ["ok", "unresolvable"])
    c("roundtrip-pct/escape-lookalike", "roundtrip_pct3", {}, ["ok", "unresolvable"], timeout=900)
    c("roundtrip-pct/L2", "roundtrip", dict(L=2, pct=True), ["ok", "unresolvable"], timeout=900)
    for form in ("prefix", "arr"):
        c("roundtrip2-%s/L1" % form, "roundtrip2", dict(L=1, form=form), ["ok", "unresolvable"], timeout=600)
        c("roundtrip2-%s/L2" % form, "roundtrip2", dict(L=2, form=form), ["ok", "unresolvable"], timeout=900)
    c("array/list", "array_tokens", dict(target="list"), ["ok", "unresolvable"])
    c("array/str", "array_tokens", dict(target="str"), ["unresolvable"])
    c("array/int", "array_tokens", dict(target="int"), ["unresolvable"])
    c("hostile-names", "hostile_names", {}, ["ok"])
    c("whole/obj", "whole", dict(kind="obj"), ["ok"])
    c("whole/arr", "whole", dict(kind="arr"), ["ok"])
    return out
