"""C03 -- validation is total: accepted schema + JSON instance never crashes (E1 with the real check_schema as
the assumption; E2 raise-freedom of the numeric kernels)."""
import random
from typing import Dict, List, Union

import jsonschema
from jsonschema import FormatChecker, SchemaError

from vf import cand, templates as tp
from vf.harness import HarnessEscape, Spec, pick, small

META = {
    "level": "model_checking",
    "explanation": "bounded symbolic execution: candidate schemas {K: v} with symbolic keyword values of every JSON kind (and sibling "
                   "pairs) are first passed through the *real* check_schema, executed symbolically as the documented validity "
                   "predicate; on the accepting paths every entry point is run on a symbolic instance and may only raise the "
                   "documented exceptions; the numeric kernels' exception conditions over floats/huge ints are decided by E2 queries",
    "bounds": {"values and instances": "strings <= 2 code points, containers <= 2 entries, unbounded ints", "floats": cand.FLOATS,
               "subschemas": "concrete catalogue", "$ref / id / regex / format / Draft 3 type names": "concrete catalogues chosen by symbolic index"},
    "outside": ["three or more interacting keywords beyond the listed sibling groups", "symbolic floats outside the E2 kinds"],
    "stubs": ["message formatting"],
    "assumptions": ["every $ref value is a string and every regex compiles (the property's own preconditions)", "CrossHair's library models"],
}

REFS = ["#", "#/definitions/a", "#/definitions/nope", "#/", "#/a~1b", "#/items/0", "nope.json", "#/properties/a", "#/definitions",
        "#/definitions/a/type", "#/definitions/a/type/0", "#/definitions/a/type/name", "#/definitions/a/x/y"]
NON_SCHEMA_REF = "#/definitions/a/type"      # designates the string "integer": known finding F10
IDS = ["", "http://x.test/a.json", "b.json", "#frag", "http://x.test/dir/", "urn:x"]
REGEXES = tp.REGEXES + ["a{2}", "(a|b)*c"]
FORMATS = ["ipv4", "email", "date", "regex", "unknown-format", "", "uri", "color", "time", "host-name", "ip-address"]
TYPENAMES = ["integer", "number", "string", "boolean", "null", "array", "object", "any", "foo", ""]
SPECIAL = {"refstr": REFS, "idstr": IDS, "regex": REGEXES, "fmtname": FORMATS, "typename": TYPENAMES}
STR_REPLACEMENT = {"$ref": "refstr", "id": "idstr", "$id": "idstr", "pattern": "regex", "format": "fmtname", "$schema": "idstr"}
ALLOWED = ("RefResolutionError", "UnknownType")
INSTANCE = Union[None, bool, int, str, List[int], Dict[str, int]]
# a float keyword value never meets a symbolic integer in E1 (CrossHair's int-vs-float arithmetic crashed z3 / enumerates integers);
# the numeric kernels with float operands are decided by the E2 queries
INSTANCE_NO_INT = Union[None, bool, str, List[str], Dict[str, bool]]
# ... and because even a *length* is a symbolic integer (len(x) < 2.0), instances that meet float keyword values, or a symbolic divisor,
# come from a concrete catalogue chosen by a symbolic index
INST_CAT = [None, True, 0, 3, -4, 2.5, 1e308, 10 ** 30, "", "ab", [], [1, 2], [[], "x", None], {}, {"a": 1, "b": [2]},
            "2020-01-01", "1.2.3.4", "a@b", "::1", "12:00:00", "(", "\u00e9.example"]


INST_CAT_NOFLOAT = [x for x in INST_CAT if not isinstance(x, float)]


def concrete_instance_needed(k, kind):
    return kind == "float" or k in ("multipleOf", "divisibleBy")


def kinds_for(d, k):
    ks = list(cand.kinds_for(k))
    if k in STR_REPLACEMENT:
        ks = [STR_REPLACEMENT[k] if x == "str" else x for x in ks]
    if d == 3 and k in ("type", "disallow"):
        ks = ["typename" if x == "str" else ("arr_typename" if x == "arr_str" else x) for x in ks]
        ks = [x for x in ks if x not in ("arr_scalar", "arr_arr_str")] + ["arr_typename"]
    if k == "patternProperties":
        ks = [x for x in ks if not x.startswith("obj_") or x == "obj_subschema"]
    if k in ("id", "$id"):
        ks = [x for x in ks if x != "float"] + ["float"]
    return list(dict.fromkeys(ks))


def vtype(kind):
    if kind in SPECIAL or kind == "arr_typename":
        return int
    return cand.VALUE_KINDS[kind]


def vok(d, kind, v):
    if kind in SPECIAL:
        return 0 <= v < len(SPECIAL[kind])
    if kind == "arr_typename":
        return 0 <= v < len(SPECIAL["typename"]) ** 2
    return cand.value_ok(d, kind, v)


def vof(d, kind, v):
    if kind in SPECIAL:
        return pick(SPECIAL[kind], v)
    if kind == "arr_typename":
        n = len(SPECIAL["typename"])
        return [pick(SPECIAL["typename"], v // n), pick(SPECIAL["typename"], v % n)]
    return cand.value_of(d, kind, v)


def accepted(d, schema):
    try:
        tp.CLS[d].check_schema(schema)
        return True
    except SchemaError:
        return False
    except Exception as e:
        raise HarnessEscape("check_schema:" + type(e).__name__)


def run_entry_points(d, schema, x, eps):
    """returns tag; raises HarnessEscape for anything but the documented exceptions"""
    cls = tp.CLS[d]
    try:
        cls.check_schema(schema)
    except SchemaError:
        return "schema-rejected"
    except Exception as e:
        raise HarnessEscape("check_schema:" + type(e).__name__)
    tag = "valid"
    for ep in eps:
        fc = FormatChecker() if ep.endswith("+fc") else None
        try:
            if ep.startswith("module"):
                jsonschema.validate(x, schema, cls=cls, format_checker=fc)
            else:
                v = cls(schema, format_checker=fc)
                if ep.startswith("is_valid"):
                    if not v.is_valid(x):
                        tag = "invalid"
                elif ep.startswith("iter_errors"):
                    for e in v.iter_errors(x):
                        tag = "invalid"
                else:
                    v.validate(x)
        except jsonschema.ValidationError:
            if ep.startswith("is_valid") or ep.startswith("iter_errors"):
                raise HarnessEscape("ValidationError from " + ep)
            tag = "invalid"
        except (jsonschema.RefResolutionError,):
            tag = "unresolvable"
        except jsonschema.exceptions.UnknownType:
            if d != 3:
                raise HarnessEscape("UnknownType outside Draft 3")
            tag = "unknown-type"
        except HarnessEscape:
            raise
        except Exception as e:
            raise HarnessEscape(type(e).__name__ + " from " + ep)
    return tag


HEAVY_KINDS = ("arr_subschema", "obj_subschema", "arr_typename", "obj_arr_str", "arr_arr_str")
CHEAP_KINDS = ("null", "bool", "int", "float", "subschema", "typename", "refstr", "idstr", "regex", "fmtname", "str")
EPS_CORE = ["is_valid", "iter_errors", "validate"]
EPS_ALL = EPS_CORE + ["module", "is_valid+fc", "module+fc"]


TYPENAMES_SMALL = ["integer", "string", "any", "foo"]


def single(d, k, kind, position="root", eps="core", exclude=(), small_cat=False):
    cand.SMALL[0] = small_cat
    SPECIAL["typename"] = TYPENAMES_SMALL if small_cat else TYPENAMES
    place = cand.POSITIONS[position]
    ep_list = EPS_CORE if eps == "core" else EPS_ALL

    def schema_of(v):
        base = {k: vof(d, kind, v)}
        if k == "$ref" or (d == 3 and k in ("extends",)):
            base["definitions"] = {"a": {"type": "integer"}}
        return place(d, base)

    # with a format checker attached the instance is concrete as well: the built-in checkers run in C code or in library models
    # that CrossHair replaces by its own (datetime), which are not trusted (DESIGN 2.1)
    cat = concrete_instance_needed(k, kind) or eps != "core"

    def pre(v, x):
        if cat and not (0 <= x < len(INST_CAT_NOFLOAT if kind == "int" else INST_CAT)):
            return False
        if "F10" in exclude and kind == "refstr" and v == REFS.index(NON_SCHEMA_REF):
            return False
        if "F12" in exclude and kind == "refstr" and v == REFS.index("#") and position in ("root", "in_not_or_extends"):
            return False        # a reference to the whole document reached without descending into the instance: unbounded recursion
        if not (small(v, 2, 2, 2) and vok(d, kind, v)):
            return False
        # the documented validity predicate, executed for real, *before* the instance is looked at: rejected schemas cost one path
        if not accepted(d, schema_of(v)):
            return False
        if cat:
            return True
        return small(x, 1, 1) if small_cat else small(x, 2, 2)

    def body(v, x):
        return True, run_entry_points(d, schema_of(v), pick(INST_CAT_NOFLOAT if kind == "int" else INST_CAT, x) if cat else x, ep_list)

    return Spec([("v", vtype(kind)), ("x", int if cat else INSTANCE)], pre, body, tags=[])


PAIRS = [
    ("items", ["bool", "subschema", "arr_subschema"], "additionalItems", ["bool", "subschema", "int", "obj_int"]),
    ("properties", ["obj_subschema", "obj_bool"], "additionalProperties", ["bool", "subschema"]),
    ("patternProperties", ["obj_subschema"], "additionalProperties", ["bool", "subschema"]),
    ("minimum", ["int", "float"], "exclusiveMinimum", ["bool", "int", "float"]),
    ("maximum", ["int", "float"], "exclusiveMaximum", ["bool", "int", "float"]),
    ("if", ["bool", "subschema"], "then", ["bool", "subschema", "int"]),
    ("if", ["bool", "subschema"], "else", ["bool", "subschema"]),
    ("dependencies", ["obj_subschema", "obj_arr_str", "obj_str", "obj_bool"], "required", ["arr_str", "bool"]),
    ("type", ["typename", "arr_typename", "str", "arr_str"], "enum", ["arr_scalar"]),
    ("multipleOf", ["int", "float"], "type", ["str"]),
    ("divisibleBy", ["int", "float"], "type", ["str"]),
    ("required", ["arr_str", "bool"], "properties", ["obj_subschema"]),
    ("uniqueItems", ["bool", "int"], "items", ["subschema", "arr_subschema"]),
    ("contains", ["bool", "subschema"], "items", ["bool", "arr_subschema"]),
    ("propertyNames", ["bool", "subschema"], "properties", ["obj_subschema"]),
    ("extends", ["subschema", "arr_subschema"], "disallow", ["typename", "arr_typename", "arr_subschema"]),
]


def pairf(d, k1, kind1, k2, kind2, small_cat=False):
    cand.SMALL[0] = small_cat
    SPECIAL["typename"] = TYPENAMES_SMALL if small_cat else TYPENAMES

    cat = concrete_instance_needed(k1, kind1) or concrete_instance_needed(k2, kind2)

    def pre(v1, v2, x):
        if cat and not (0 <= x < len(INST_CAT_NOFLOAT if "int" in (kind1, kind2) else INST_CAT)):
            return False
        if not (small(v1, 2, 2, 2) and small(v2, 2, 2, 2) and vok(d, kind1, v1) and vok(d, kind2, v2)):
            return False
        if not accepted(d, {k1: vof(d, kind1, v1), k2: vof(d, kind2, v2)}):
            return False
        if cat:
            return True
        return small(x, 1, 1) if small_cat else small(x, 2, 2)

    def body(v1, v2, x):
        schema = {k1: vof(d, kind1, v1), k2: vof(d, kind2, v2)}
        return True, run_entry_points(d, schema, pick(INST_CAT_NOFLOAT if "int" in (kind1, kind2) else INST_CAT, x) if cat else x, EPS_CORE)

    return Spec([("v1", vtype(kind1)), ("v2", vtype(kind2)), ("x", int if cat else INSTANCE)], pre, body, tags=[])


KEY_REGEXES = REGEXES + ["(?i)b", "(?s).", "(?i)^A$"]      # "(?m)^a" crashes CrossHair's regex model (IndexError on the empty subject): not used


def pattern_keys(d, i, N=1):
    """two regexes (incl. inline flags) as patternProperties keys next to additionalProperties; the first is fixed (cube)"""
    def pre(j, ap, x):
        return 0 <= j < len(KEY_REGEXES) and i != j and small(x, 1, N)


    def body(j, ap, x):
        schema = {"patternProperties": {pick(KEY_REGEXES, i): {}, pick(KEY_REGEXES, j): {"type": "integer"}}, "additionalProperties": ap}
        return True, run_entry_points(d, schema, x, EPS_CORE)

    return Spec([("j", int), ("ap", bool), ("x", Dict[str, int])], pre, body, tags=[])


def conditions(tier, seed, active):
    out = []
    rng = random.Random(seed)
    quick = tier == "quick"

    def c(cid, factory, params, timeout=900):
        if factory == "single":
            params = dict(params, exclude=list(active), small_cat=quick or params.get("kind") in HEAVY_KINDS)
        if factory == "pairf":
            params = dict(params, small_cat=quick or params.get("kind1") in HEAVY_KINDS or params.get("kind2") in HEAVY_KINDS)
        out.append(dict(id=cid, module=__name__, factory=factory, params=params, timeout=timeout, tags=[], witness=[],
                        allow_vacuous=True))       # a value kind the metaschema never accepts leaves nothing to run (C11 decides acceptance)

    for d in (3, 4, 6, 7):
        for i in range(len(KEY_REGEXES)):
            if quick and (i + d) % 3:
                continue
            out.append(dict(id="pattern-keys/d%d/first%d" % (d, i), module=__name__, factory="pattern_keys", params=dict(d=d, i=i, N=1 if quick else 2),
                            timeout=1800, tags=[], witness=[]))
        for k in cand.keywords(d):
            for kind in kinds_for(d, k):
                if quick and (kind not in CHEAP_KINDS or rng.random() < 0.65):
                    continue
                c("kw/%s/%s/d%d" % (k, kind, d), "single", dict(d=d, k=k, kind=kind))
                if rng.random() < (0.015 if quick else 0.1):
                    c("kw-all-entry-points/%s/%s/d%d" % (k, kind, d), "single", dict(d=d, k=k, kind=kind, eps="all"), timeout=1800)
            if not quick:
                for pos in rng.sample(["in_properties", "in_items_tuple", "in_not_or_extends"], 2):
                    for kind in rng.sample(kinds_for(d, k), 1):
                        c("kw@%s/%s/%s/d%d" % (pos, k, kind, d), "single", dict(d=d, k=k, kind=kind, position=pos), timeout=1800)
        kws = set(cand.keywords(d))
        for k1, kinds1, k2, kinds2 in PAIRS:
            if k1 not in kws or k2 not in kws:
                continue
            for a in kinds1:
                for b in kinds2:
                    if d != 3 and "typename" in (a, b) or d != 3 and "arr_typename" in (a, b):
                        continue
                    if d == 3 and ((k1 in ("type", "disallow") and a in ("str", "arr_str")) or (k2 in ("type", "disallow") and b in ("str", "arr_str"))):
                        continue      # Draft 3 accepts any string as a type name: those are catalogue members ("typename"), never free strings
                    if quick and (a not in CHEAP_KINDS or b not in CHEAP_KINDS or (a == b == "subschema") or rng.random() < 0.65):
                        continue
                    if not quick and (a not in CHEAP_KINDS or b not in CHEAP_KINDS) and rng.random() < 0.7:
                        continue
                    c("pair/%s:%s+%s:%s/d%d" % (k1, a, k2, b, d), "pairf", dict(d=d, k1=k1, kind1=a, k2=k2, kind2=b), timeout=1800)
    return out


def extra(tier, seed, ctx):
    """E2: no finite operand of any kind makes a numeric keyword raise (shared with C09)."""
    from vf.props import c09
    r = c09.extra(tier, seed, ctx, only_family="never raises")
    return r
