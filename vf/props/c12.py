"""C12 -- format is off unless a checker is given, and then follows the checker exactly (E1)."""
from typing import Dict, List, Union

import jsonschema
from jsonschema import FormatChecker

from vf import templates as tp
from vf.harness import HarnessEscape, KIND_TYPES, Scalar, Spec, esig, pick, small

META = {
    "level": "model_checking",
    "explanation": "bounded symbolic execution of the format keyword and FormatChecker.check/conforms: custom check functions whose behaviour "
                   "is a symbolic selector (truthy/falsy values of several types, a listed exception, an unlisted one); every registered "
                   "built-in checker of this installation against symbolic non-string instances of every kind; no checker = schema without "
                   "format; FormatChecker(formats=subset); the four draft checker objects",
    "bounds": {"instances": "every JSON kind, strings <= 2-3, containers <= 2, unbounded ints", "format names": "registered names + unknown + ''"},
    "outside": ["the accepted language of the built-in string formats (C13)"],
    "stubs": ["message formatting"],
    "assumptions": ["CrossHair's library models"],
}

CHECKERS = {
    "default": lambda: FormatChecker(),
    "d3": lambda: jsonschema.draft3_format_checker, "d4": lambda: jsonschema.draft4_format_checker,
    "d6": lambda: jsonschema.draft6_format_checker, "d7": lambda: jsonschema.draft7_format_checker,
}


def names_of(which):
    return sorted(CHECKERS[which]().checkers)


def all_names():
    return sorted(set(FormatChecker.checkers) | set(sum((names_of(w) for w in CHECKERS), []))) + ["unknown-format", "", "IPV4", "ipv4 "]


NONSTRING = Union[None, bool, int, List[int], Dict[str, int]]


def custom(d):
    """a custom check function whose behaviour is chosen symbolically"""
    def pre(sel, x, known):
        return 0 <= sel < 8 and small(x, 2, 2)

    def body(sel, x, known):
        fc = FormatChecker(formats=())
        listed = ValueError("listed")
        unlisted = KeyError("unlisted")

        def fn(inst):
            if sel == 0:
                return True
            if sel == 1:
                return False
            if sel == 2:
                return 0
            if sel == 3:
                return "x"
            if sel == 4:
                return []
            if sel == 5:
                return ""
            if sel == 6:
                raise listed
            raise unlisted

        fc.checks("f", raises=ValueError)(fn)
        name = "f" if known else "g"
        cls = tp.CLS[d]
        try:
            base = list(cls({"format": name}).iter_errors(x))
        except Exception as e:
            raise HarnessEscape(type(e).__name__)
        if base:
            return False, "no-checker"
        try:
            conf_alone = fc.conforms(x, name)
            escaped = None
        except KeyError as e:
            escaped = e
        except Exception as e:
            raise HarnessEscape(type(e).__name__)
        if (escaped is not None) != (known and sel == 7) or (escaped is not None and escaped is not unlisted):
            return False, "conforms-alone"
        try:
            errs = list(cls({"format": name}, format_checker=fc).iter_errors(x))
            conf = fc.conforms(x, name)
        except KeyError as e:
            return known and sel == 7 and e is unlisted, "unlisted-escapes"
        except Exception as e:
            raise HarnessEscape(type(e).__name__)
        if not known:
            return errs == [] and conf is True, "unknown-passes"
        if sel in (0, 3):
            return errs == [] and conf is True, "passes"
        if sel == 7:
            return False, "unlisted-swallowed"
        if len(errs) != 1 or conf is not False:
            return False, "fails"
        e = errs[0]
        if e.validator != "format" or e.validator_value != "f" or list(e.path) != [] or list(e.schema_path) != ["format"]:
            return False, "fails"
        if sel == 6:
            return e.cause is listed, "fails-with-cause"
        return e.cause is None, "fails"

    return Spec([("sel", int), ("x", Scalar), ("known", bool)], pre, body,
                tags=["passes", "fails", "fails-with-cause", "unlisted-escapes", "unknown-passes"])


def no_checker(d, kind):
    """without a checker `format` changes nothing, whatever the name"""
    names = all_names()

    def pre(x, ni, a):
        return 0 <= ni < len(names) and small(x, 2, 2)

    def body(x, ni, a):
        name = pick(names, ni)
        cls = tp.CLS[d]
        try:
            with_f = [esig(e) for e in cls({"format": name, "maximum": a, "maxLength": 1}).iter_errors(x)]
            without = [esig(e) for e in cls({"maximum": a, "maxLength": 1}).iter_errors(x)]
        except Exception as e:
            raise HarnessEscape(type(e).__name__)
        return with_f == without, ("valid" if not without else "invalid")

    return Spec([("x", KIND_TYPES[kind]), ("ni", int), ("a", int)], pre, body, tags=["valid"] if kind not in ("int", "str") else ["valid", "invalid"])


def nonstring(which, d):
    """every registered built-in checker passes every non-string instance"""
    names = names_of(which)

    def pre(x, ni):
        return 0 <= ni < len(names) and small(x, 2, 2)

    def body(x, ni):
        name = pick(names, ni)
        fc = CHECKERS[which]()
        try:
            conf = fc.conforms(x, name)
            fc.check(x, name)
            errs = list(tp.CLS[d]({"format": name}, format_checker=fc).iter_errors(x))
        except Exception as e:
            raise HarnessEscape(type(e).__name__)
        return conf is True and errs == [], "passes"

    return Spec([("x", NONSTRING), ("ni", int)], pre, body, tags=["passes"])


def follows(which, d, name, L=3):
    """a format error is reported exactly when conforms() is false (string instances; cheap built-ins)"""
    def pre(s):
        return len(s) <= L

    def body(s):
        fc = CHECKERS[which]()
        try:
            conf = fc.conforms(s, name)
            errs = list(tp.CLS[d]({"format": name}, format_checker=fc).iter_errors(s))
        except Exception as e:
            raise HarnessEscape(type(e).__name__)
        if conf is not True and conf is not False:
            return False, "non-bool"
        if conf:
            return errs == [], "conforms"
        return len(errs) == 1 and errs[0].validator == "format", "rejected"

    return Spec([("s", str)], pre, body, tags=["conforms", "rejected"])


def subset(d):
    """FormatChecker(formats=subset) knows exactly the subset"""
    def pre(s, pick_email):
        return len(s) <= 2

    def body(s, pick_email):
        fc = FormatChecker(formats=["email"] if pick_email else ["ipv4"])
        try:
            e1 = fc.conforms(s, "email")
            e2 = fc.conforms(s, "ipv4")
            full = FormatChecker()
            f1, f2 = full.conforms(s, "email"), full.conforms(s, "ipv4")
        except Exception as e:
            raise HarnessEscape(type(e).__name__)
        if pick_email:
            return e1 == f1 and e2 is True, "email-only"
        return e2 == f2 and e1 is True, "ipv4-only"

    return Spec([("s", str), ("pick_email", bool)], pre, body, tags=["email-only", "ipv4-only"])


def conditions(tier, seed, active):
    out = []

    def c(cid, factory, params, tags, timeout=600):
        out.append(dict(id=cid, module=__name__, factory=factory, params=params, timeout=timeout, tags=tags, witness=tags[:3]))

    for d in (3, 4, 6, 7):
        c("custom/d%d" % d, "custom", dict(d=d), ["passes", "fails", "fails-with-cause", "unlisted-escapes", "unknown-passes"])
        for kind in ("int", "str", "null", "bool", "arr_int", "obj_int"):
            c("no-checker/%s/d%d" % (kind, d), "no_checker", dict(d=d, kind=kind), ["valid"] if kind not in ("int", "str") else ["valid", "invalid"])
        c("subset/d%d" % d, "subset", dict(d=d), ["email-only", "ipv4-only"])
    for which, d in (("default", 7), ("d3", 3), ("d4", 4), ("d6", 6), ("d7", 7), ("default", 3)):
        c("nonstring/%s/d%d" % (which, d), "nonstring", dict(which=which, d=d), ["passes"])
        c("follows/email/%s/d%d" % (which, d), "follows", dict(which=which, d=d, name="email"), ["conforms", "rejected"])
        ip = "ip-address" if which == "d3" else "ipv4"
        c("follows/%s/%s/d%d" % (ip, which, d), "follows", dict(which=which, d=d, name=ip, L=2), ["rejected"])
    return out
