"""smoke test of the framework (not a property)"""
from typing import Dict
from jsonschema import Draft7Validator
from vf.harness import Spec, call, small

def maxi(draft=7):
    def pre(x, m): return True
    def body(x, m):
        got = call(Draft7Validator({"maximum": m}).is_valid, x)
        return got == (x <= m), ("valid" if got else "invalid")
    return Spec([("x", int), ("m", int)], pre, body, tags=["valid", "invalid"])

def bad():
    def pre(x: Dict[str, int]): return small(x)
    def body(x):
        got = call(Draft7Validator({"required": ["a"], "maxProperties": 1}).is_valid, x)
        return got == ("a" in x), ("valid" if got else "invalid")
    return Spec([("x", Dict[str, int])], pre, body, tags=["valid", "invalid"])

def conditions(tier, seed, active):
    return [dict(id="maxi", module=__name__, factory="maxi", params={}, timeout=30, tags=["valid", "invalid"]),
            dict(id="bad", module=__name__, factory="bad", params={}, timeout=30, tags=["valid", "invalid"])]
META = {}
