"""Candidate schemas with symbolic keyword *values* (C03, C11): {K: v} for every property name the bundled
metaschema declares, v ranging over every JSON kind; placed at the root and in subschema positions."""
import json
from typing import Dict, List, Union

from vf.harness import KIND_TYPES, Scalar, pick

from vf.harness import REPO

META_FILES = {d: REPO + "/jsonschema/schemas/draft%d.json" % d for d in (3, 4, 6, 7)}
_META = {}


def metaschema(d):
    if d not in _META:
        _META[d] = json.load(open(META_FILES[d]))
    return _META[d]


def keywords(d):
    """property names declared by the bundled metaschema (read from the file at run time) + one undeclared name"""
    return sorted(metaschema(d).get("properties", {})) + ["x-unknown"]


VALUE_KINDS = {
    "null": type(None), "bool": bool, "int": int, "str": str,
    "arr_int": List[int], "arr_str": List[str], "arr_bool": List[bool], "arr_scalar": List[Scalar],
    "obj_int": Dict[str, int], "obj_str": Dict[str, str], "obj_bool": Dict[str, bool],
    "obj_arr_str": List[str], "arr_arr_str": List[str],     # one symbolic array inside a concrete wrapper (two symbolic levels do not finish)
    "float": int,          # index into FLOATS
    "subschema": int,      # index into SUBSCHEMAS (concrete small schemas, valid and invalid ones)
    "arr_subschema": int,  # pairs from SUBSCHEMAS
    "obj_subschema": int,
}
FLOATS = [0.0, -0.0, 1.0, 0.5, -1.5, 2.0, 1e308, 5e-324, 3.0]
FLOATS_SMALL = [0.0, 1.0, 0.5, 1e308]
SUBSCHEMAS = [{}, {"type": "string"}, {"minimum": "x"}, {"type": 5}, {"items": {"type": []}}, {"maxLength": -1}, {"enum": []},
              {"required": "a"}, {"properties": {"a": 1}}, {"x-unknown": None}, {"minimum": 0, "maximum": 1}]
SUBSCHEMAS_BOOL = [True, False]
SMALL = [False]          # set by a condition factory: use a 4-entry subschema catalogue (quick tier of C03)
SUBSCHEMAS_SMALL = [{}, {"type": "string"}, {"minimum": 0, "maximum": 1}, {"type": 5}]

# kinds tried per keyword family (every keyword gets the scalar kinds and the flat arrays/objects; schema-valued and
# map-valued keywords additionally get the structured kinds)
BASE_KINDS = ["null", "bool", "int", "str", "float", "arr_int", "arr_str", "obj_int", "subschema"]
EXTRA_KINDS = {
    "items": ["arr_subschema", "arr_bool", "obj_str"], "allOf": ["arr_subschema", "arr_bool"], "anyOf": ["arr_subschema"], "oneOf": ["arr_subschema"],
    "extends": ["arr_subschema"], "type": ["arr_subschema", "arr_scalar", "arr_arr_str"], "disallow": ["arr_subschema", "arr_scalar"],
    "properties": ["obj_subschema", "obj_bool", "obj_str"], "patternProperties": ["obj_subschema", "obj_bool"], "definitions": ["obj_subschema", "obj_bool"],
    "dependencies": ["obj_subschema", "obj_arr_str", "obj_str", "obj_bool"], "enum": ["arr_scalar", "arr_arr_str"], "required": ["arr_scalar", "arr_bool"],
    "examples": ["arr_scalar"], "additionalItems": ["obj_str"], "additionalProperties": ["obj_str"],
}


def kinds_for(k):
    return BASE_KINDS + EXTRA_KINDS.get(k, [])


def value_of(d, kind, v):
    """materialise the keyword value from the symbolic parameter"""
    subs = (SUBSCHEMAS_SMALL if SMALL[0] else SUBSCHEMAS) + (SUBSCHEMAS_BOOL if d >= 6 else [])
    if kind == "float":
        return pick(FLOATS_SMALL if SMALL[0] else FLOATS, v)
    if kind == "obj_arr_str":
        return {"a": v, "": ["x"]}
    if kind == "arr_arr_str":
        return [v, ["y"]]
    if kind == "subschema":
        return pick(subs, v)
    if kind == "arr_subschema":
        n = len(subs)
        return [pick(subs, v // n), pick(subs, v % n)]
    if kind == "obj_subschema":
        n = len(subs)
        return {"a": pick(subs, v // n), "": pick(subs, v % n)}
    return v


def value_ok(d, kind, v):
    subs = len(SUBSCHEMAS_SMALL if SMALL[0] else SUBSCHEMAS) + (2 if d >= 6 else 0)
    if kind == "float":
        return 0 <= v < len(FLOATS_SMALL if SMALL[0] else FLOATS)
    if kind == "subschema":
        return 0 <= v < subs
    if kind in ("arr_subschema", "obj_subschema"):
        return 0 <= v < subs * subs
    return True


POSITIONS = {
    "root": lambda d, s: s,
    "in_properties": lambda d, s: {"properties": {"a": s}},
    "in_items_tuple": lambda d, s: {"items": [{}, s]},
    "in_not_or_extends": lambda d, s: {"extends": s} if d == 3 else {"not": s},
    "in_additionalProperties": lambda d, s: {"additionalProperties": s},
}
