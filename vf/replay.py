"""Plain-interpreter replay of a counterexample / witness: no CrossHair, no stubs, /repo as it is.

usage: python -m vf.replay <file.json> [--json]
exit 1: the property is violated on the real code for these arguments; 0: it holds; 2: not replayable.
"""
import json
import sys
import threading


def trace_functions(fn):
    from vf.harness import REPO
    seen = set()

    def tracer(frame, event, arg):
        if event == "call":
            f = frame.f_code.co_filename
            if "/jsonschema/" in f and "/tests/" not in f and f.startswith(REPO + "/"):
                seen.add(f.split("/jsonschema/")[-1] + ":" + frame.f_code.co_qualname)
        return None

    sys.settrace(tracer)
    threading.settrace(tracer)
    try:
        r = fn()
    finally:
        sys.settrace(None)
        threading.settrace(None)
    return r, sorted(seen)


def replay(doc, trace=True):
    from vf import harness
    from vf.worker import make_spec
    if doc.get("engine") == "E2":
        from vf import numkern
        return numkern.replay(doc)
    spec = make_spec(doc["cond"])
    args = doc["args"]
    if trace:
        (status, tag, detail), fns = trace_functions(lambda: harness.run_concrete(spec, args))
    else:
        (status, tag, detail), fns = harness.run_concrete(spec, args), []
    return {"status": status, "tag": tag, "detail": detail, "functions": fns}


def main(argv):
    path = argv[1]
    doc = json.load(open(path))
    out = replay(doc)
    assert "crosshair" not in sys.modules, "replay must not load CrossHair"
    if "--json" in argv:
        print(json.dumps(out))
    else:
        print("replay of %s (property %s, condition %s)" % (path, doc.get("property"), doc.get("cond", {}).get("id")))
        print("  arguments: %s" % json.dumps(doc.get("args"))[:1500])
        print("  result: %s tag=%s %s" % (out["status"], out["tag"], out["detail"]))
    return {"violated": 1, "ok": 0}.get(out["status"], 2)


if __name__ == "__main__":
    sys.exit(main(sys.argv))
