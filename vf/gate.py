"""Anchor of the oracle: refmodel must reproduce every expected verdict of the official
JSON-Schema-Test-Suite bundled with /repo that lies inside C01's stated domain (DESIGN 2.3).
Includes the cases the repository itself skips for bug 686."""
import glob
import json
import os
from fractions import Fraction

from vf import refmodel

from vf.harness import REPO

SUITE = REPO + "/json/tests"
OPTIONAL = ("bignum", "zeroTerminatedFloats", "float-overflow")
SKIP_FILES = ("refRemote.json", "format.json", "infinite-loop-detection.json")
ECMA = ("\\d", "\\w", "\\s", "\\D", "\\W", "\\S", "\\c", "\\p")


def refs_of(s, out):
    if isinstance(s, dict):
        for k, v in s.items():
            if k == "$ref" and isinstance(v, str):
                out.append(v)
            if k in ("id", "$id") and isinstance(v, str):
                out.append("id:" + v)
            refs_of(v, out)
    elif isinstance(s, list):
        for v in s:
            refs_of(v, out)
    return out


def inexact_float(x):
    return isinstance(x, float) and Fraction(x) != Fraction(repr(x))


def outside_domain(draft, schema, data):
    """Rules (not names) that put a suite case outside the oracle's domain; returns a reason or None."""
    for r in refs_of(schema, []):
        if r.startswith("id:"):
            return "base-URI change / embedded id (C02)"
        if not (r == "#" or r.startswith("#/")) or "%" in r:
            return "non-local or percent-encoded reference (C02/C14)"
    txt = json.dumps(schema)
    if isinstance(schema, dict):
        for kw in ("multipleOf", "divisibleBy"):
            if kw in schema and (inexact_float(schema[kw]) or inexact_float(data)) :
                return "float multipleOf outside the exact sub-domain (C09)"
            if kw in schema and isinstance(data, float) and data > 2.0 ** 53 and isinstance(schema[kw], float):
                return "float multipleOf outside the exact sub-domain (C09)"
    for e in ECMA:
        if e in txt.replace("\\\\", "\\"):
            return "ECMA 262 vs Python regex dialect"
    if "format" in txt and '"format"' in txt:
        return "format (C12/C13)"
    return None


def run():
    total = bad = skipped = 0
    fails = []
    reasons = {}
    for d in (3, 4, 6, 7):
        files = sorted(glob.glob("%s/draft%d/*.json" % (SUITE, d)))
        files += ["%s/draft%d/optional/%s.json" % (SUITE, d, n) for n in OPTIONAL]
        for f in files:
            if not os.path.exists(f) or os.path.basename(f) in SKIP_FILES:
                continue
            for case in json.load(open(f)):
                for t in case["tests"]:
                    why = outside_domain(d, case["schema"], t["data"])
                    if why:
                        skipped += 1
                        reasons[why] = reasons.get(why, 0) + 1
                        continue
                    total += 1
                    try:
                        got = refmodel.valid(d, case["schema"], t["data"])
                    except Exception as e:
                        got = "raised %r" % (e,)
                    if got != t["valid"]:
                        bad += 1
                        fails.append("draft%d %s: %s / %s: oracle %s, suite %s" % (
                            d, os.path.basename(f), case["description"], t["description"], got, t["valid"]))
    return {"cases": total, "disagreements": bad, "outside_domain": skipped, "reasons": reasons, "failures": fails[:20]}


if __name__ == "__main__":
    r = run()
    print(json.dumps(r, indent=1))
