"""Engine E1: CrossHair configured for jsonschema (DESIGN.md Appendix A).

Everything in here touches CrossHair only, never /repo.  Imported by worker processes only; the
replayer never imports this module.
"""
import linecache
import time

import z3
from crosshair import core, statespace
from crosshair.core import CrossHairValue, _PATCH_REGISTRATIONS as PR
from crosshair.core_and_libs import analyze_function, run_checkables
from crosshair.libimpl import builtinslib as b
from crosshair.options import AnalysisKind, AnalysisOptionSet
from crosshair.tracers import NoTracing

from vf.harness import Opaque

STATS = {"queries": 0, "solver_s": 0.0, "paths": 0}
LAST_CEX = {"args": None}


def has_symbolic(x, depth=0):
    with NoTracing():
        if isinstance(x, CrossHairValue):
            return True
        if depth > 4:
            return False
        if isinstance(x, (tuple, list)):
            return any(has_symbolic(i, depth + 1) for i in x)
        if isinstance(x, dict):
            return any(has_symbolic(i, depth + 1) for i in x.values()) or any(
                has_symbolic(i, depth + 1) for i in x.keys())
        if isinstance(x, BaseException):
            return True
    return False


def skeleton(x, d=0):
    """Identity skeleton of formatting arguments: concrete scalars by value, the rest by identity."""
    with NoTracing():
        if isinstance(x, Opaque):
            return ("o", x.key)
        if isinstance(x, (tuple, list)) and d < 4 and not isinstance(x, CrossHairValue):
            return tuple(skeleton(i, d + 1) for i in x)
        if isinstance(x, (int, str, bool, float, type(None))) and not isinstance(x, CrossHairValue):
            return ("c", x)
        if isinstance(x, CrossHairValue):
            # identity of a symbolic value = its solver term where it has one (proxies are re-created on every access,
            # so id() is not stable); otherwise only its type
            var = getattr(x, "var", None)
            if var is not None and hasattr(var, "sexpr"):
                try:
                    return ("sym", type(x).__name__, var.sexpr()[:200])
                except Exception:
                    pass
            return ("sym", type(x).__name__)
        if isinstance(x, dict) and d < 4:
            return ("dict", len(x))
        return ("obj", type(x).__name__)


_CONFIGURED = False


def configure():
    global _CONFIGURED
    if _CONFIGURED:
        return
    _CONFIGURED = True
    # 1. never replace a call by an arbitrary value satisfying its contract
    core.ShortCircuitingContext.make_interceptor = lambda self, original: original
    b._hash.__doc__ = None

    # 2. formatting stubs
    def sym_int_repr(self):
        return Opaque(("repr", skeleton(self)))

    def sym_str_repr(self):
        return Opaque(("repr", skeleton(self)))

    b.SymbolicInt.__repr__ = sym_int_repr
    b.AnySymbolicStr.__repr__ = sym_str_repr
    b.LazyIntSymbolicStr.__repr__ = sym_str_repr

    def pct(self, other):
        if has_symbolic(other) or has_symbolic(self):
            with NoTracing():
                tmpl = str(self) if not has_symbolic(self) else "?"
            return Opaque((tmpl, skeleton(other)))
        with NoTracing():
            return str.__mod__(self, other)

    def fmt(self, *a, **kw):
        if has_symbolic(a) or has_symbolic(kw) or has_symbolic(self):
            with NoTracing():
                tmpl = str(self) if not has_symbolic(self) else "?"
            return Opaque((tmpl, skeleton(a), skeleton(tuple(kw.values()))))
        with NoTracing():
            return str.format(self, *a, **kw)

    b._str_percent_format = pct
    b._str_format = fmt
    PR[str.__mod__] = pct
    PR[str.format] = fmt

    # 2b. CrossHair 0.0.110's symbolic re.Pattern.search never tries a match at the end position (`while pos < endpos`), so a
    #     pattern that matches the empty string ("", "^$", "a*$") finds nothing in the empty subject.  Found by a reachability
    #     witness that did not replay.  Same loop with `<=`.
    import re as _re
    from crosshair.libimpl import relib as _relib

    def search_fixed(self, string, pos=0, endpos=None):
        chr_, ord_ = _relib._check_str_or_bytes(self, string)
        if not isinstance(pos, int):
            raise TypeError
        if not (endpos is None or isinstance(endpos, int)):
            raise TypeError
        pos, endpos = _relib.realize(pos), _relib.realize(endpos)
        mylen = string.__len__()
        with NoTracing():
            if isinstance(string, (_relib.AnySymbolicStr, _relib.BytesLike)):
                pos, endpos, _ = slice(pos, endpos, 1).indices(_relib.realize(mylen))
                try:
                    while pos <= endpos:
                        match = _relib._match_pattern(self, string, pos, endpos, chr=chr_, ord=ord_)
                        if match:
                            return match
                        pos += 1
                    return None
                except _relib.ReUnhandled as e:
                    _relib.debug("Unsupported symbolic regex", self.pattern, e)
            if endpos is None:
                return _re.Pattern.search(self, _relib.realize(string), pos)
            return _re.Pattern.search(self, _relib.realize(string), pos, endpos)

    PR[_re.Pattern.search] = search_fixed

    # 3. counters
    oc = z3.Solver.check

    def check(self, *a):
        t = time.perf_counter()
        try:
            return oc(self, *a)
        finally:
            STATS["queries"] += 1
            STATS["solver_s"] += time.perf_counter() - t

    z3.Solver.check = check
    oi = statespace.StateSpace.__init__

    def init(self, *a, **k):
        STATS["paths"] += 1
        return oi(self, *a, **k)

    statespace.StateSpace.__init__ = init

    # 4. capture the realized counterexample instead of parsing it back from the message
    om = core.make_counterexample_message

    def mcm(conditions, args, return_val=None):
        msg = om(conditions, args, return_val)
        try:
            reprer = core.context_statespace().extra(core.LazyCreationRepr)
            with NoTracing():
                real = reprer.deep_realize(args)
            LAST_CEX["args"] = list(real.arguments.values())
        except Exception as e:  # pragma: no cover
            LAST_CEX["args"] = None
            LAST_CEX["err"] = repr(e)
        return msg

    core.make_counterexample_message = mcm


def register_source(filename, src):
    linecache.cache[filename] = (len(src), None, src.splitlines(True), filename)


def analyze(fn, timeout, per_path_timeout=None):
    """Run CrossHair on one asserts-style condition.  Returns dict(state, message, paths, ...)."""
    configure()
    for k in STATS:
        STATS[k] = 0 if k != "solver_s" else 0.0
    LAST_CEX["args"] = None
    kw = dict(per_condition_timeout=timeout, report_all=True, analysis_kind=[AnalysisKind.asserts])
    if per_path_timeout is not None:
        kw["per_path_timeout"] = per_path_timeout
    t0 = time.time()
    msgs = list(run_checkables(analyze_function(fn, AnalysisOptionSet(**kw))))
    wall = time.time() - t0
    out = dict(paths=STATS["paths"], queries=STATS["queries"], solver_s=round(STATS["solver_s"], 3),
               wall_s=round(wall, 2), cex=LAST_CEX["args"], messages=[(m.state.name, m.message[:500]) for m in msgs])
    states = [m.state.name for m in msgs]
    if not msgs:
        out["state"] = "NO_CONDITION"
    elif any(s in ("POST_FAIL", "EXEC_ERR", "POST_ERR", "PRE_INVALID", "SYNTAX_ERR", "IMPORT_ERR") for s in states):
        out["state"] = "REFUTED"
    elif all(s == "CONFIRMED" for s in states):
        out["state"] = "CONFIRMED"
    elif any(s == "PRE_UNSAT" for s in states):
        out["state"] = "PRE_UNSAT"
    else:
        out["state"] = "UNKNOWN"
    return out
