"""Engine E2 -- numkern: Python AST -> SMT for jsonschema's numeric keyword kernels (DESIGN 2.2).

On every run the *current* source of the functions bound to the numeric keywords in the real
VALIDATORS tables is parsed and evaluated symbolically.  Python values are tagged unions:

  int64   |i| < 2**63            64-bit two's-complement bit-vector
  big     |i| >= 2**1024         SMT Int (only its sign and, for int/int arithmetic, its value matter)
  float   finite binary64        (_ FloatingPoint 11 53), introduced through its 64 bits

The semantics of Python's operators on these kinds is written here once (from the language reference
and floatobject.c/longobject.c); it is *trusted*, cross-examined by (i) specification-side formulas
written on the IEEE fields in bit-vector arithmetic and (ii) concrete validation against the real
interpreter (validate_translator).  An AST node outside the supported subset raises Unsupported,
which the check reports as inconclusive.  The band 2**63 <= |i| < 2**1024 is outside the encoding.
"""
import ast
import inspect
import json
import os
import subprocess
import textwrap
import time

import z3

F = z3.Float64()
RNE = z3.RNE()
T, Fa = z3.BoolVal(True), z3.BoolVal(False)
W = 192


class Unsupported(Exception):
    pass


class PyInt:
    kind = "int64"

    def __init__(s, bv):
        s.bv = bv


class PyBig:
    kind = "big"

    def __init__(s, iv):
        s.iv = iv


class PyBigAny:
    """an int of unknown magnitude resulting from arithmetic on a huge int (SMT Int); only compared with literals"""
    kind = "bigany"

    def __init__(s, iv):
        s.iv = iv


class PyFloat:
    kind = "float"

    def __init__(s, fp, bits=None):
        s.fp, s.bits = fp, bits


class PyBool:
    def __init__(s, b):
        s.b = b


class Concrete:
    def __init__(s, v):
        s.v = v


class PyTrunc:          # int(<float>): remembered as the float it came from
    def __init__(s, fp):
        s.fp = fp


class PyFrac:           # Fraction(a) or Fraction(a)/Fraction(b)
    def __init__(s, a, b=None):
        s.a, s.b = a, b


class Denominator:
    def __init__(s, frac):
        s.frac = frac


# ------------------------------------------------------------------------------------------------
# IEEE fields of a float given by its 64 bits:  value = (-1)^sign * m * 2^e,  m < 2**53

def fields(bits):
    sign = z3.Extract(63, 63, bits)
    ex = z3.Extract(62, 52, bits)
    fr = z3.Extract(51, 0, bits)
    sub = ex == 0
    m = z3.If(sub, z3.ZeroExt(12, fr), z3.ZeroExt(11, z3.Concat(z3.BitVecVal(1, 1), fr)))   # 64-bit
    e = z3.If(sub, z3.BitVecVal(-1074, 16), z3.ZeroExt(5, ex) - 1075)                        # 16-bit signed
    return sign, m, e


def finite_bits(bits):
    return z3.Extract(62, 52, bits) != 0x7FF


# ------------------------------------------------------------------------------------------------
# trusted operator model

BIG = z3.FPVal(2.0 ** 100, F)


def _ceil_sbv(f):
    return z3.fpToSBV(z3.RTP(), z3.fpRoundToIntegral(z3.RTP(), f), z3.BitVecSort(128))


def _floor_sbv(f):
    return z3.fpToSBV(z3.RTN(), z3.fpRoundToIntegral(z3.RTN(), f), z3.BitVecSort(128))


def _sx(i):
    return z3.SignExt(64, i)


FLIP = {"<": ">", "<=": ">=", ">": "<", ">=": "<=", "==": "==", "!=": "!="}


def py_compare(op, a, b):
    """Python's a <op> b on finite numbers: exact, also for mixed int/float (float_richcompare)."""
    ka, kb = a.kind, b.kind
    if ka == "int64" and kb == "int64":
        x, y = a.bv, b.bv
        if x.size() != y.size():         # results of int arithmetic are wider than the 64-bit operands
            w = max(x.size(), y.size())
            x, y = z3.SignExt(w - x.size(), x), z3.SignExt(w - y.size(), y)
        return {"<": x < y, "<=": x <= y, ">": x > y, ">=": x >= y, "==": x == y, "!=": x != y}[op]
    if ka == "float" and kb == "float":
        if op == "!=":
            return z3.Not(z3.fpEQ(a.fp, b.fp))
        return {"<": z3.fpLT, "<=": z3.fpLEQ, ">": z3.fpGT, ">=": z3.fpGEQ, "==": z3.fpEQ}[op](a.fp, b.fp)
    if ka == "int64" and kb == "float":
        f = b.fp
        big = z3.fpGEQ(z3.fpAbs(f), BIG)
        pos = z3.Not(z3.fpIsNegative(f))
        i = z3.SignExt(128 - a.bv.size(), a.bv)
        if op == "<":
            return z3.If(big, pos, i < _ceil_sbv(f))
        if op == "<=":
            return z3.If(big, pos, i <= _floor_sbv(f))
        if op == ">":
            return z3.If(big, z3.Not(pos), i > _floor_sbv(f))
        if op == ">=":
            return z3.If(big, z3.Not(pos), i >= _ceil_sbv(f))
        eq = z3.And(z3.Not(big), i == _floor_sbv(f), i == _ceil_sbv(f))
        return eq if op == "==" else z3.Not(eq)
    if ka == "float" and kb == "int64":
        return py_compare(FLIP[op], b, a)
    if ka == "bigany" or kb == "bigany":
        ai = a.iv if ka in ("bigany", "big") else (z3.BV2Int(a.bv, True) if ka == "int64" else None)
        bi = b.iv if kb in ("bigany", "big") else (z3.BV2Int(b.bv, True) if kb == "int64" else None)
        if ai is None or bi is None:
            raise Unsupported("comparison of an arithmetic result on huge ints with a float")
        return {"<": ai < bi, "<=": ai <= bi, ">": ai > bi, ">=": ai >= bi, "==": ai == bi, "!=": ai != bi}[op]
    if ka == "big" and kb == "big":
        return {"<": a.iv < b.iv, "<=": a.iv <= b.iv, ">": a.iv > b.iv, ">=": a.iv >= b.iv,
                "==": a.iv == b.iv, "!=": a.iv != b.iv}[op]
    if ka == "big":          # |other| < 2**1024 <= |a|: decided by the sign of a
        neg = a.iv < 0
        return {"<": neg, "<=": neg, ">": z3.Not(neg), ">=": z3.Not(neg), "==": Fa, "!=": T}[op]
    if kb == "big":
        return py_compare(FLIP[op], b, a)
    raise Unsupported("compare %s %s" % (ka, kb))


# ------------------------------------------------------------------------------------------------
# the evaluator

class Ev:
    """Evaluates one keyword function symbolically.

    self.fails  : condition under which the function yields a ValidationError
    self.raised : [(condition, exception type name)] escaping the function
    """

    def __init__(self, fn_or_src, env, is_type, ratio_is_integer=None, exact_float_rem=False):
        self.exact_float_rem = exact_float_rem
        self.domain_notes = []
        src = fn_or_src if isinstance(fn_or_src, str) else textwrap.dedent(inspect.getsource(fn_or_src))
        self.fdef = ast.parse(src).body[0]
        if not isinstance(self.fdef, ast.FunctionDef):
            raise Unsupported("not a function definition")
        self.env = dict(env)
        self.is_type = is_type
        self.ratio_is_integer = ratio_is_integer
        self.fails = Fa
        self.raised = []
        self.nodes = 0

    def run(self):
        self.block(self.fdef.body, T)
        return self

    def raises(self):
        return z3.Or(*[c for c, _ in self.raised]) if self.raised else Fa

    # -- statements: return the guard under which control falls through
    def block(self, stmts, g):
        for st in stmts:
            g = self.stmt(st, g)
        return g

    def stmt(self, st, g):
        self.nodes += 1
        if isinstance(st, ast.If):
            c, g = self.truth(st.test, g)
            c = z3.simplify(c)
            if z3.is_true(c):
                return self.block(st.body, g)
            if z3.is_false(c):
                return self.block(st.orelse, g)
            env0 = dict(self.env)
            g1 = self.block(st.body, z3.And(g, c))
            env1 = self.env
            self.env = dict(env0)
            g2 = self.block(st.orelse, z3.And(g, z3.Not(c)))
            env2 = self.env
            self.env = self.merge(c, env1, env2)
            return z3.Or(g1, g2)
        if isinstance(st, ast.Return):
            if st.value is not None:
                raise Unsupported("return with a value")
            return Fa
        if isinstance(st, ast.Expr) and isinstance(st.value, ast.Yield):
            call = st.value.value
            if not (isinstance(call, ast.Call) and getattr(call.func, "id", "") == "ValidationError"):
                raise Unsupported("yield of something else than ValidationError(...)")
            self.fails = z3.Or(self.fails, g)
            return g
        if isinstance(st, ast.Expr) and isinstance(st.value, ast.Constant):
            return g
        if isinstance(st, ast.Assign) and len(st.targets) == 1 and isinstance(st.targets[0], ast.Name):
            v, g = self.expr(st.value, g)
            self.env[st.targets[0].id] = v
            return g
        if isinstance(st, ast.Try):
            if st.finalbody or st.orelse:
                raise Unsupported("try with else/finally")
            outer = self.raised
            self.raised = []
            env0 = dict(self.env)
            gb = self.block(st.body, g)
            envb = self.env
            inner = self.raised
            self.raised = outer
            gout = gb
            env = envb
            for cond, name in inner:
                handled = False
                for h in st.handlers:
                    names = []
                    if isinstance(h.type, ast.Name):
                        names = [h.type.id]
                    elif isinstance(h.type, ast.Tuple):
                        names = [e.id for e in h.type.elts if isinstance(e, ast.Name)]
                    elif h.type is None:
                        names = ["Exception"]
                    if name in names or "Exception" in names or (
                            "ArithmeticError" in names and name in ("OverflowError", "ZeroDivisionError")):
                        self.env = dict(env0)
                        gh = self.block(h.body, cond)
                        env = self.merge(z3.Not(cond), env, self.env)
                        gout = z3.Or(gout, gh)
                        handled = True
                        break
                if not handled:
                    self.raised.append((cond, name))
            self.env = env
            return gout
        raise Unsupported("statement " + ast.dump(st)[:80])

    def merge(self, c, e1, e2):
        out = {}
        for k in set(e1) | set(e2):
            a, b = e1.get(k), e2.get(k)
            if a is b:
                out[k] = a
            elif a is None:
                out[k] = b
            elif b is None:
                out[k] = a
            elif isinstance(a, Concrete) and isinstance(b, Concrete) and isinstance(a.v, str) and isinstance(b.v, str):
                out[k] = Concrete("<text>")
            else:
                out[k] = PyBool(z3.If(c, self.to_truth(a), self.to_truth(b)))   # only truthiness survives
        return out

    def to_truth(self, v):
        if isinstance(v, PyBool):
            return v.b
        if isinstance(v, Concrete):
            return z3.BoolVal(bool(v.v))
        if isinstance(v, PyInt):
            return v.bv != 0
        if isinstance(v, PyBig):
            return v.iv != 0
        if isinstance(v, PyFloat):
            return z3.Not(z3.fpIsZero(v.fp))
        raise Unsupported("truthiness of %r" % (v,))

    def truth(self, e, g):
        v, g = self.expr(e, g)
        return self.to_truth(v), g

    def throw(self, g, cond, name):
        self.raised.append((z3.And(g, cond), name))
        return z3.And(g, z3.Not(cond))

    # -- expressions: (value, guard)
    def expr(self, e, g):
        self.nodes += 1
        if isinstance(e, ast.Name):
            if e.id in self.env:
                return self.env[e.id], g
            raise Unsupported("name " + e.id)
        if isinstance(e, ast.Constant):
            return Concrete(e.value), g
        if isinstance(e, ast.Tuple):
            return Concrete("<tuple>"), g
        if isinstance(e, ast.UnaryOp) and isinstance(e.op, ast.Not):
            c, g = self.truth(e.operand, g)
            return PyBool(z3.Not(c)), g
        if isinstance(e, ast.BoolOp):
            vals = []
            for x in e.values:          # no short-circuit side effects in the supported subset
                c, g = self.truth(x, g)
                vals.append(c)
            return PyBool(z3.And(*vals) if isinstance(e.op, ast.And) else z3.Or(*vals)), g
        if isinstance(e, ast.Attribute) and e.attr == "denominator":
            v, g = self.expr(e.value, g)
            if isinstance(v, PyFrac):
                return Denominator(v), g
            raise Unsupported(".denominator of non-Fraction")
        if isinstance(e, ast.Compare) and len(e.ops) == 1:
            op = {ast.Lt: "<", ast.LtE: "<=", ast.Gt: ">", ast.GtE: ">=", ast.Eq: "==", ast.NotEq: "!="}.get(type(e.ops[0]))
            if op is None:
                raise Unsupported("comparison operator")
            l, g = self.expr(e.left, g)
            r, g = self.expr(e.comparators[0], g)
            return self.compare(op, l, r), g
        if isinstance(e, ast.BinOp):
            if isinstance(e.op, ast.Mod) and isinstance(e.left, ast.Constant) and isinstance(e.left.value, str):
                return Concrete("<msg>"), g
            l, g = self.expr(e.left, g)
            r, g = self.expr(e.right, g)
            if isinstance(e.op, ast.Div):
                return self.div(l, r, g)
            if isinstance(e.op, ast.Sub):
                return self.sub_(l, r, g)
            if isinstance(e.op, ast.Mod):
                return self.mod(l, r, g)
            raise Unsupported("binary operator " + type(e.op).__name__)
        if isinstance(e, ast.Call):
            f = e.func
            if isinstance(f, ast.Attribute) and f.attr == "is_integer" and not e.args:
                v, g = self.expr(f.value, g)
                if isinstance(v, PyFloat):          # float.is_integer(): False for inf and nan, never raises
                    fin = z3.And(z3.Not(z3.fpIsInf(v.fp)), z3.Not(z3.fpIsNaN(v.fp)))
                    return PyBool(z3.And(fin, z3.fpEQ(z3.fpRoundToIntegral(z3.RTZ(), v.fp), v.fp))), g
                raise Unsupported("is_integer() of a non-float")
            if isinstance(f, ast.Attribute) and isinstance(f.value, ast.Name):
                if f.value.id == "validator" and f.attr == "is_type":
                    t, g = self.expr(e.args[0], g)
                    n, g = self.expr(e.args[1], g)
                    try:
                        verdict = bool(self.is_type(t, n.v))
                    except Exception as exc:        # the real type check raised on the representative of this kind (e.g. a huge int)
                        return PyBool(Fa), self.throw(g, T, type(exc).__name__)
                    return PyBool(z3.BoolVal(verdict)), g
                if f.value.id == "schema" and f.attr == "get":
                    key, g = self.expr(e.args[0], g)
                    default, g = self.expr(e.args[1], g) if len(e.args) > 1 else (Concrete(None), g)
                    return self.env["schema"].get(key.v, default), g
            if isinstance(f, ast.Name):
                if f.id == "isinstance":
                    t, g = self.expr(e.args[0], g)
                    cls = getattr(e.args[1], "id", None)
                    if cls == "float":
                        return PyBool(z3.BoolVal(isinstance(t, PyFloat))), g
                    if cls == "int":
                        return PyBool(z3.BoolVal(isinstance(t, (PyInt, PyBig)))), g
                    if cls == "bool":
                        return PyBool(Fa), g
                    raise Unsupported("isinstance of " + str(cls))
                if f.id == "int":
                    a, g = self.expr(e.args[0], g)
                    if isinstance(a, PyFloat):
                        g = self.throw(g, z3.fpIsInf(a.fp), "OverflowError")
                        g = self.throw(g, z3.fpIsNaN(a.fp), "ValueError")
                        return PyTrunc(a.fp), g
                    if isinstance(a, (PyInt, PyBig)):
                        return a, g
                if f.id == "float":
                    a, g = self.expr(e.args[0], g)
                    fp, g = self.tofloat(a, g)
                    return PyFloat(fp), g
                if f.id == "round":
                    a, g = self.expr(e.args[0], g)
                    if isinstance(a, PyFloat) and len(e.args) == 1:
                        g = self.throw(g, z3.fpIsInf(a.fp), "OverflowError")
                        g = self.throw(g, z3.fpIsNaN(a.fp), "ValueError")
                        return PyFloat(z3.fpRoundToIntegral(RNE, a.fp)), g      # value of round(x) as a number
                if f.id == "Fraction":
                    a, g = self.expr(e.args[0], g)
                    if isinstance(a, PyFloat):
                        g = self.throw(g, z3.fpIsInf(a.fp), "OverflowError")
                        g = self.throw(g, z3.fpIsNaN(a.fp), "ValueError")
                    return PyFrac(a), g
                if f.id == "ValidationError":
                    return Concrete("<err>"), g
        raise Unsupported("expression " + ast.dump(e)[:100])

    def compare(self, op, l, r):
        if isinstance(l, PyTrunc) and isinstance(r, PyFloat) and op in ("!=", "=="):
            # int(q) <op> q: exact int/float comparison; equal iff q is integral (q finite here)
            eq = z3.fpEQ(z3.fpRoundToIntegral(z3.RTZ(), l.fp), r.fp)
            return PyBool(eq if op == "==" else z3.Not(eq))
        if isinstance(l, Denominator) and isinstance(r, Concrete) and r.v == 1 and op in ("!=", "=="):
            if self.ratio_is_integer is None:
                raise Unsupported("Fraction semantics not supplied")
            isint = self.ratio_is_integer(l.frac.a, l.frac.b)
            return PyBool(isint if op == "==" else z3.Not(isint))
        if isinstance(l, PyBool) or isinstance(r, PyBool):
            raise Unsupported("comparison of booleans")
        l, r = self.lift(l), self.lift(r)
        if hasattr(l, "kind") and hasattr(r, "kind"):
            return PyBool(py_compare(op, l, r))
        raise Unsupported("comparison of %r and %r" % (l, r))

    def lift(self, v):
        """a numeric literal of the source as a symbolic-domain constant"""
        if isinstance(v, Concrete) and isinstance(v.v, bool):
            raise Unsupported("boolean literal in arithmetic")
        if isinstance(v, Concrete) and isinstance(v.v, int) and abs(v.v) < 2 ** 63:
            return PyInt(z3.BitVecVal(v.v, 64))
        if isinstance(v, Concrete) and isinstance(v.v, float):
            return concrete_value("float", v.v)
        return v

    def sub_(self, l, r, g):
        l, r = self.lift(l), self.lift(r)
        if isinstance(l, PyInt) and isinstance(r, PyInt):
            w = max(l.bv.size(), r.bv.size()) + 1
            return PyInt(z3.SignExt(w - l.bv.size(), l.bv) - z3.SignExt(w - r.bv.size(), r.bv)), g
        if isinstance(l, (PyInt, PyBig)) and isinstance(r, (PyInt, PyBig)):
            li = l.iv if isinstance(l, PyBig) else z3.BV2Int(l.bv, True)
            ri = r.iv if isinstance(r, PyBig) else z3.BV2Int(r.bv, True)
            return PyBigAny(li - ri), g
        if isinstance(l, PyFloat) or isinstance(r, PyFloat):
            a, g = self.tofloat(l, g)
            b, g = self.tofloat(r, g)
            if a is None or b is None:
                return PyFloat(z3.FPVal(0.0, F)), g
            return PyFloat(z3.fpSub(RNE, a, b)), g        # may be +-inf; comparisons with inf are well defined
        raise Unsupported("subtraction of %r and %r" % (l, r))

    def tofloat(self, v, g):
        """implicit int -> float conversion of Python arithmetic (PyLong_AsDouble)"""
        if isinstance(v, PyFloat):
            return v.fp, g
        if isinstance(v, PyInt):
            return z3.fpSignedToFP(RNE, v.bv, F), g
        if isinstance(v, PyBig):
            return None, self.throw(g, T, "OverflowError")
        if isinstance(v, PyBigAny):
            raise Unsupported("float conversion of an arithmetic result on huge ints")
        raise Unsupported("float() of %r" % (v,))

    def div(self, l, r, g):
        if isinstance(l, PyFrac) and isinstance(r, PyFrac) and l.b is None and r.b is None:
            g = self.throw(g, z3.Not(self.to_truth(r.a)), "ZeroDivisionError")
            return PyFrac(l.a, r.a), g
        if isinstance(l, PyFloat) or isinstance(r, PyFloat):
            a, g = self.tofloat(l, g)
            b, g = self.tofloat(r, g)
            if a is None or b is None:
                return PyFloat(z3.FPVal(0.0, F)), g        # unreachable value: the guard is false
            g = self.throw(g, z3.fpIsZero(b), "ZeroDivisionError")
            return PyFloat(z3.fpDiv(RNE, a, b)), g
        raise Unsupported("true division of two ints")

    def mod(self, l, r, g):
        if isinstance(l, PyInt) and isinstance(r, PyInt):
            g = self.throw(g, r.bv == 0, "ZeroDivisionError")
            return PyBool(z3.SRem(l.bv, r.bv) != 0), g     # floor-mod is non-zero iff the C remainder is
        if isinstance(l, (PyInt, PyBig)) and isinstance(r, (PyInt, PyBig)):
            li = l.iv if isinstance(l, PyBig) else z3.BV2Int(l.bv, True)
            ri = r.iv if isinstance(r, PyBig) else z3.BV2Int(r.bv, True)
            g = self.throw(g, ri == 0, "ZeroDivisionError")
            return PyBool(li % ri != 0), g
        if isinstance(l, PyFloat) and isinstance(r, PyInt) and l.bits is not None and self.exact_float_rem:
            # float % int inside the domain |x| < 2**63, 0 < d <= 2**53 (the caller adds these constraints): the int converts
            # exactly and C fmod is exact by definition, so the result is non-zero iff x is not an integer multiple of d.
            # Written on the fields of x (bit-blasting fp.rem on binary64 does not finish: unknown after 900 s in both solvers).
            g = self.throw(g, r.bv == 0, "ZeroDivisionError")
            sgn, m, e = fields(l.bits)
            k = -e
            integral = z3.Or(k <= 0, z3.And(k < 64, (m & ((z3.BitVecVal(1, 64) << z3.ZeroExt(48, k)) - 1)) == 0), m == 0)
            mag = z3.If(e >= 0, m << z3.ZeroExt(48, e), z3.LShR(m, z3.ZeroExt(48, k)))
            d = z3.If(r.bv < 0, -r.bv, r.bv)
            self.domain_notes.append("float % int modelled by the definition of fmod (domain |x| < 2**63, 0 < d <= 2**53)")
            return PyBool(z3.Not(z3.And(integral, z3.URem(mag, d) == 0))), g
        if isinstance(l, PyFloat) or isinstance(r, PyFloat):
            a, g = self.tofloat(l, g)
            b, g = self.tofloat(r, g)
            if a is None or b is None:
                return PyBool(Fa), g
            g = self.throw(g, z3.fpIsZero(b), "ZeroDivisionError")
            # float_rem: fmod, then sign adjustment; the result is non-zero iff fmod is, iff the IEEE remainder is
            return PyBool(z3.Not(z3.fpIsZero(z3.fpRem(a, b)))), g
        raise Unsupported("% of %r and %r" % (l, r))


# ------------------------------------------------------------------------------------------------
# symbolic operands

def mk(kind, name):
    """(value, well-formedness constraint)"""
    if kind == "int64":
        return PyInt(z3.BitVec(name, 64)), z3.BitVec(name, 64) != z3.BitVecVal(-2 ** 63, 64)
    if kind == "big":
        v = z3.Int(name)
        return PyBig(v), z3.Or(v >= 2 ** 1024, v <= -(2 ** 1024))
    if kind == "float":
        b = z3.BitVec(name + "_bits", 64)
        return PyFloat(z3.fpBVToFP(b, F), b), finite_bits(b)
    raise ValueError(kind)


def representative(v):
    if isinstance(v, PyBig):
        return 2 ** 1030          # a member of the kind itself: type predicates may treat huge ints differently
    if isinstance(v, PyInt):
        return 1
    if isinstance(v, PyFloat):
        return 1.5
    raise Unsupported("representative")


def positive(v):
    if isinstance(v, PyInt):
        return v.bv > 0
    if isinstance(v, PyBig):
        return v.iv > 0
    return z3.fpGT(v.fp, z3.FPVal(0.0, F))


def concrete_value(kind, x):
    """z3 constants for a concrete Python number of the given kind (translator validation)."""
    if kind == "int64":
        return PyInt(z3.BitVecVal(x, 64))
    if kind == "big":
        return PyBig(z3.IntVal(x))
    import struct
    bits = struct.unpack("<Q", struct.pack("<d", x))[0]
    b = z3.BitVecVal(bits, 64)
    return PyFloat(z3.fpBVToFP(b, F), b)


def kind_of_number(x):
    if isinstance(x, float):
        return "float"
    if abs(x) < 2 ** 63:
        return "int64"
    if abs(x) >= 2 ** 1024:
        return "big"
    return None


def evaluate(cls, fn, kwname, operand, instance, schema_extra=None, ratio_is_integer=None, src=None, exact_float_rem=False):
    """Symbolic evaluation of keyword function `fn` (bound in class `cls`)."""
    argn = list(inspect.signature(fn).parameters)
    schema = dict(schema_extra or {})
    env = {argn[0]: None, argn[1]: operand, argn[2]: instance, argn[3]: schema, "schema": schema}

    def is_type(v, name):
        return cls.TYPE_CHECKER.is_type(representative(v), name)

    return Ev(src if src is not None else fn, env, is_type, ratio_is_integer, exact_float_rem).run()


# ------------------------------------------------------------------------------------------------
# solving

STATS = {"queries": 0, "solver_s": 0.0, "by_solver": {}}


def to_smt2(assertions, logic="ALL"):
    s = z3.Solver()
    s.add(*assertions)
    text = s.to_smt2()
    for op in ("bvurem", "bvsrem", "bvudiv", "bvsdiv", "bvsmod"):      # z3 prints its internal non-zero-divisor variants
        text = text.replace(op + "_i", op)
    return "(set-logic %s)\n%s" % (logic, text)


def solve(assertions, timeout=120, backend="z3", workdir=None, want_model=False):
    """-> (result in {'sat','unsat','unknown'}, seconds, model or None).  Anything odd is 'unknown'."""
    t = time.time()
    model = None
    if backend == "z3":
        s = z3.Solver()
        s.set("timeout", int(timeout * 1000))
        s.add(*assertions)
        r = str(s.check())
        if r == "sat":
            model = s.model()
    else:
        wd = workdir or os.environ.get("VF_WORKDIR") or "/verif/.work"
        os.makedirs(wd, exist_ok=True)
        fn = os.path.join(wd, "q_%d_%d.smt2" % (os.getpid(), STATS["queries"]))
        text = to_smt2(assertions)
        with open(fn, "w") as f:
            f.write(text)
        try:
            p = subprocess.run(["cvc5", "--tlimit=%d" % int(timeout * 1000), fn], capture_output=True, text=True,
                               timeout=timeout + 30)
            out = (p.stdout + "\n" + p.stderr).strip()
        except subprocess.TimeoutExpired:
            out = "unknown"
        finally:
            try:
                os.unlink(fn)
            except OSError:
                pass
        first = out.splitlines()[0].strip() if out else "unknown"
        r = first if first in ("sat", "unsat") and "(error" not in out else "unknown"
        if r == "sat" and want_model:     # get concrete values from z3 on the same formula (cheap once sat is known)
            s = z3.Solver()
            s.set("timeout", int(timeout * 1000))
            s.add(*assertions)
            if str(s.check()) == "sat":
                model = s.model()
    dt = time.time() - t
    STATS["queries"] += 1
    STATS["solver_s"] += dt
    STATS["by_solver"][backend] = STATS["by_solver"].get(backend, 0) + 1
    return r, dt, model


def model_number(model, v):
    """Python number for a symbolic operand under a z3 model."""
    if isinstance(v, PyInt):
        x = model.eval(v.bv, model_completion=True).as_long()
        return x - 2 ** 64 if x >= 2 ** 63 else x
    if isinstance(v, PyBig):
        return model.eval(v.iv, model_completion=True).as_long()
    import struct
    bits = model.eval(v.bits, model_completion=True).as_long()
    return struct.unpack("<d", struct.pack("<Q", bits))[0]


def replay(doc):
    """Concrete replay of an E2 counterexample through the public API."""
    import jsonschema
    from fractions import Fraction
    cls = getattr(jsonschema, doc["cls"])
    schema = doc["schema"]
    inst = doc["instance"]
    if isinstance(inst, dict) and "int" in inst:
        inst = int(inst["int"])
    for k, v in list(schema.items()):
        if isinstance(v, dict) and "int" in v:
            schema[k] = int(v["int"])
    try:
        got_fails = not cls(schema).is_valid(inst)
    except Exception as e:
        return {"status": "violated", "tag": "raised", "detail": "%s escaped: %s(%r).is_valid(%r)" % (
            type(e).__name__, doc["cls"], schema, inst), "functions": []}
    if doc.get("expect") == "no-raise":
        return {"status": "ok", "tag": "no-raise", "detail": "", "functions": []}
    kw = doc["keyword"]
    op = schema[kw]
    a, b = Fraction(inst), Fraction(op)
    if kw in ("multipleOf", "divisibleBy"):
        want_fails = (a / b).denominator != 1
    else:
        excl = doc.get("exclusive", False)
        if kw in ("minimum", "exclusiveMinimum"):
            want_fails = a <= b if excl else a < b
        else:
            want_fails = a >= b if excl else a > b
    ok = got_fails == want_fails
    return {"status": "ok" if ok else "violated", "tag": "fails" if got_fails else "passes",
            "detail": "" if ok else "%s(%r).is_valid(%r) is %s, exact arithmetic says %s" % (
                doc["cls"], schema, inst, not got_fails, not want_fails), "functions": []}
