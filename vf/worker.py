"""Symbolic worker: analyses one condition in a forked child process."""
import importlib
import json
import os
import sys
import time
import traceback


def make_spec(cond):
    mod = importlib.import_module(cond["module"])
    return getattr(mod, cond["factory"])(**cond.get("params", {}))


def jsonable(x):
    try:
        return json.loads(json.dumps(x))
    except Exception:
        return None


def analyse(cond, mode="prove", want=None, timeout=None):
    """Runs in the child.  Returns a JSON-able dict."""
    from vf import chx, harness
    harness.TAGS.clear()
    t0 = time.time()
    try:
        spec = make_spec(cond)
        fn = harness.build(spec, mode=mode, want=want)
        res = chx.analyze(fn, timeout or cond.get("timeout", 60))
    except BaseException as e:  # noqa
        return {"id": cond["id"], "mode": mode, "want": want, "state": "HARNESS_ERROR",
                "messages": [("EXC", "".join(traceback.format_exception(type(e), e, e.__traceback__))[-2000:])],
                "paths": 0, "queries": 0, "solver_s": 0.0, "wall_s": time.time() - t0, "tags": {}, "cex": None}
    res["id"] = cond["id"]
    res["mode"] = mode
    res["want"] = want
    res["tags"] = dict(harness.TAGS)
    if res.get("cex") is not None:
        j = jsonable(res["cex"])
        if j is None:
            res["cex_repr"] = repr(res["cex"])[:2000]
        res["cex"] = j
    return res


def child_main(conn, cond, mode, want, timeout):
    try:
        sys.setrecursionlimit(10000)
        res = analyse(cond, mode, want, timeout)
    except BaseException as e:  # noqa
        res = {"id": cond["id"], "mode": mode, "want": want, "state": "HARNESS_ERROR",
               "messages": [("EXC", repr(e))], "paths": 0, "queries": 0, "solver_s": 0.0, "wall_s": 0.0,
               "tags": {}, "cex": None}
    try:
        conn.send(res)
    finally:
        conn.close()
        os._exit(0)
