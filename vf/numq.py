"""E2 query families for the numeric keywords (C09; raise-freedom shared with C03; DESIGN 2.2 / 3.C09)."""
import inspect
import json
import multiprocessing as mp
import os
import time

import z3

from vf import numkern as nk
from vf.numkern import F, Fa, T, fields

KINDS = ("int64", "float", "big")
W = nk.W


def classes():
    import jsonschema
    return {3: jsonschema.Draft3Validator, 4: jsonschema.Draft4Validator,
            6: jsonschema.Draft6Validator, 7: jsonschema.Draft7Validator}


# ------------------------------------------------------------------------------------------------
# specification side, written on integers / IEEE fields only (no fp.* operations)

def _wide(bv, signed):
    n = W - bv.size()
    return z3.SignExt(n, bv) if signed else z3.ZeroExt(n, bv)


def _cmp(op, a, b):
    return {"<": a < b, "<=": a <= b, ">": a > b, ">=": a >= b}[op]


def _sign_decides(op, left_is_smaller):
    """a <op> b when |a| and |b| are so far apart that only the order matters."""
    return {"<": left_is_smaller, "<=": left_is_smaller, ">": z3.Not(left_is_smaller), ">=": z3.Not(left_is_smaller)}[op]


def spec_compare(op, a, b):
    """Exact mathematical comparison a <op> b, formulated independently of numkern's operator model."""
    ka, kb = a.kind, b.kind
    if ka == "int64" and kb == "int64":
        diff = z3.SignExt(2, a.bv) - z3.SignExt(2, b.bv)          # 66-bit difference, decided by its sign / zero-ness
        neg, zero = z3.Extract(65, 65, diff) == 1, diff == 0
        return {"<": neg, "<=": z3.Or(neg, zero), ">": z3.And(z3.Not(neg), z3.Not(zero)), ">=": z3.Not(neg)}[op]
    if ka == "float" and kb == "float":
        def key(bits):   # monotone map of finite doubles to unsigned 64-bit integers, -0 == +0
            bits = z3.If(z3.Extract(62, 0, bits) == 0, z3.BitVecVal(0, 64), bits)
            return z3.If(z3.Extract(63, 63, bits) == 1, ~bits, bits | z3.BitVecVal(1 << 63, 64))
        x, y = key(a.bits), key(b.bits)
        return {"<": z3.ULT(x, y), "<=": z3.ULE(x, y), ">": z3.UGT(x, y), ">=": z3.UGE(x, y)}[op]
    if ka == "int64" and kb == "float":
        s, m, e = fields(b.bits)
        neg = s == 1
        I = _wide(a.bv, True)
        M = _wide(m, False)
        Ms = z3.If(neg, -M, M)
        zero = z3.BitVecVal(0, W)
        # e >= 0 (then m >= 2**52): |f| = m << e
        sh_up = _wide(e, True)
        up_small = _cmp(op, I, z3.If(neg, -(M << sh_up), M << sh_up))
        up_big = _sign_decides(op, z3.Not(neg))            # |f| >= 2**64 > |i|: i < f iff f > 0
        up = z3.If(e > 11, up_big, up_small)
        # e < 0: compare i * 2**k with +-m, k = -e
        k = -e
        kw = _wide(k, True)
        dn_small = _cmp(op, I << kw, Ms)
        dn_big = z3.If(a.bv == 0, _cmp(op, zero, Ms), _sign_decides(op, a.bv < 0))   # |i|*2**k >= 2**65 > m
        dn = z3.If(k > 64, dn_big, dn_small)
        return z3.If(e >= 0, up, dn)
    if ka == "float" and kb == "int64":
        return spec_compare(nk.FLIP[op], b, a)
    if ka == "big" and kb == "big":
        return _cmp(op, a.iv, b.iv)
    if ka == "big":
        return _sign_decides(op, a.iv < 0)
    if kb == "big":
        return _sign_decides(op, b.iv > 0)
    raise nk.Unsupported("spec compare")


def pow2_float(d):
    """d is a positive power of two (normal or subnormal); returns (constraint, K as 16-bit signed with d = 2**K)."""
    s, m, e = fields(d.bits)
    j = z3.BitVec("j_" + str(d.bits), 16)
    c = z3.And(s == 0, m != 0, (m & (m - 1)) == 0, z3.ULT(j, 64), m == (z3.BitVecVal(1, 64) << z3.ZeroExt(48, j)))
    return c, e + j


def low_bits_zero(m64, k16):
    """the k lowest bits of the 64-bit value are zero (k as 16-bit signed, k <= 0 -> true, k >= 64 -> value == 0)"""
    mask = (z3.BitVecVal(1, 64) << z3.ZeroExt(48, k16)) - 1
    return z3.Or(k16 <= 0, z3.And(k16 < 64, (m64 & mask) == 0), m64 == 0)


def float_multiple_of_pow2(x, K):
    """x (float) is an integer multiple of 2**K, on the fields of x."""
    s, m, e = fields(x.bits)
    return low_bits_zero(m, K - e)


def int_multiple_of_pow2(x, K):
    mag = z3.If(x.bv < 0, -x.bv, x.bv)
    return low_bits_zero(mag, K)


def float_is_integral_fields(bits):
    s, m, e = fields(bits)
    return low_bits_zero(m, -e)


# ------------------------------------------------------------------------------------------------
# query construction

class Q:
    def __init__(self, qid, assertions, expect, backend="z3", timeout=60, role="claim", replay=None, operands=None,
                 family=""):
        self.qid, self.assertions, self.expect = qid, assertions, expect
        self.backend, self.timeout, self.role = backend, timeout, role
        self.replay, self.operands, self.family = replay, operands, family


def flags_for(d, kw):
    """[(description, schema_extra, exclusive-as-z3-bool)] for the boolean modifiers of drafts 3/4."""
    if d in (3, 4) and kw in ("minimum", "maximum"):
        flag = "exclusiveMinimum" if kw == "minimum" else "exclusiveMaximum"
        e = z3.Bool("excl")
        return [("flag-absent", {}, Fa, None), ("flag-symbolic", {flag: nk.PyBool(e)}, e, flag)]
    return [("", {}, None, None)]


def comparison_keywords(d):
    return ["minimum", "maximum"] + (["exclusiveMinimum", "exclusiveMaximum"] if d >= 6 else [])


def build_queries(tier, mutate=None):
    """All C09 queries for the current source.  `mutate(cls, kw, fn) -> source text or None` is used by
    the self-test only."""
    qs = []
    notes = {"functions": set()}
    for d, cls in classes().items():
        # ---- A. comparisons
        for kw in comparison_keywords(d):
            fn = cls.VALIDATORS[kw]
            notes["functions"].add("%s.%s (Draft%d %s)" % (fn.__module__.split(".")[-1], fn.__name__, d, kw))
            src = mutate(cls, kw, fn) if mutate else None
            for fdesc, extra, excl, flagname in flags_for(d, kw):
                for ki in KINDS:
                    for kb in KINDS:
                        x, wx = nk.mk(ki, "x")
                        m, wm = nk.mk(kb, "m")
                        ev = nk.evaluate(cls, fn, kw, m, x, schema_extra=extra, src=src)
                        lo = kw in ("minimum", "exclusiveMinimum")
                        if excl is None:
                            strict = kw.startswith("exclusive")
                            spec = spec_compare(("<=" if lo else ">=") if strict else ("<" if lo else ">"), x, m)
                        else:
                            spec = z3.If(excl, spec_compare("<=" if lo else ">=", x, m), spec_compare("<" if lo else ">", x, m))
                        base = [wx, wm]
                        qid = "cmp/d%d/%s%s/%s-%s" % (d, kw, ("/" + fdesc) if fdesc else "", ki, kb)
                        heavy = "float" in (ki, kb) and "big" not in (ki, kb)
                        rp = dict(cls=cls.__name__, keyword=kw, flag=flagname)
                        qs.append(Q(qid + "/exact", base + [ev.fails != spec], "unsat", backend="cvc5" if heavy else "z3",
                                    timeout=120, replay=rp, operands=(x, m, excl), family="comparison exact"))
                        qs.append(Q(qid + "/noraise", base + [ev.raises()], "unsat", backend="z3", timeout=60,
                                    replay=dict(rp, expect="no-raise"), operands=(x, m, excl), family="comparison never raises"))
                        qs.append(Q(qid + "/w-fails", base + [ev.fails], "sat", role="witness", timeout=30, family="witness"))
                        qs.append(Q(qid + "/w-passes", base + [z3.Not(ev.fails)], "sat", role="witness", timeout=30, family="witness"))
        # ---- B/C. multipleOf / divisibleBy
        kw = "divisibleBy" if d == 3 else "multipleOf"
        fn = cls.VALIDATORS[kw]
        notes["functions"].add("%s.%s (Draft%d %s)" % (fn.__module__.split(".")[-1], fn.__name__, d, kw))
        src = mutate(cls, kw, fn) if mutate else None
        rp = dict(cls=cls.__name__, keyword=kw, flag=None)
        uf = lambda a, b: z3.Bool("ratio_is_integer")     # noqa: E731  (exception-freedom does not depend on it)
        for ki in KINDS:
            for kd in KINDS:
                x, wx = nk.mk(ki, "x")
                dv, wd = nk.mk(kd, "d")
                ev = nk.evaluate(cls, fn, kw, dv, x, ratio_is_integer=uf, src=src)
                heavy = ki == "float" and kd == "float"
                qs.append(Q("mul/d%d/%s-%s/noraise" % (d, ki, kd), [wx, wd, nk.positive(dv), ev.raises()], "unsat",
                            backend="cvc5" if heavy else "z3", timeout=120, replay=dict(rp, expect="no-raise"),
                            operands=(x, dv, None), family="multipleOf never raises"))
        # b1 (int % int) is decided for unbounded integers by the E1 conditions of C09 (CrossHair, SMT Int); a bit-vector
        # formulation of Euclidean division did not come back within 90 s in either solver and is not used.
        # b2: float instance, power-of-two float divisor, no underflow (overflow to inf -> Fraction fallback)
        x, wx = nk.mk("float", "x")
        dv, wd = nk.mk("float", "d")
        p2, K = pow2_float(dv)
        spec_mult = float_multiple_of_pow2(x, K)
        ev = nk.evaluate(cls, fn, kw, dv, x, ratio_is_integer=lambda a, b: spec_mult, src=src)
        q = z3.fpDiv(nk.RNE, x.fp, dv.fp)
        no_underflow = z3.Or(z3.fpIsNormal(q), z3.fpIsInf(q), z3.And(z3.fpIsZero(q), z3.fpIsZero(x.fp)))
        base = [wx, wd, p2, no_underflow]
        qs.append(Q("mul/d%d/float-pow2float/exact" % d, base + [ev.fails == spec_mult], "unsat", backend="cvc5", timeout=600,
                    replay=rp, operands=(x, dv, None), family="multipleOf exact: float / power-of-two float incl. overflow fallback"))
        qs.append(Q("mul/d%d/float-pow2float/noraise" % d, base + [ev.raises()], "unsat", backend="cvc5", timeout=300,
                    replay=dict(rp, expect="no-raise"), operands=(x, dv, None), family="multipleOf never raises"))
        # (an overflowing quotient of a power-of-two divisor is always a multiple, so "overflow and fails" has no witness)
        for wname, extra in (("w-overflow-multiple", [z3.fpIsInf(q), z3.Not(ev.fails)]),
                             ("w-fails", [ev.fails]), ("w-passes", [z3.Not(ev.fails)])):
            qs.append(Q("mul/d%d/float-pow2float/%s" % (d, wname), base + extra, "sat", backend="cvc5", role="witness", timeout=120,
                        family="witness"))
        # b3: int64 instance |x| <= 2**53, power-of-two float divisor
        x, wx = nk.mk("int64", "x")
        dv, wd = nk.mk("float", "d")
        p2, K = pow2_float(dv)
        spec_mult = int_multiple_of_pow2(x, K)
        ev = nk.evaluate(cls, fn, kw, dv, x, ratio_is_integer=lambda a, b: spec_mult, src=src)
        base = [wx, wd, p2, x.bv <= 2 ** 53, x.bv >= -(2 ** 53)]
        qs.append(Q("mul/d%d/int53-pow2float/exact" % d, base + [ev.fails == spec_mult], "unsat", backend="cvc5", timeout=600,
                    replay=rp, operands=(x, dv, None), family="multipleOf exact: int (<= 2**53) / power-of-two float incl. overflow fallback"))
        qs.append(Q("mul/d%d/int53-pow2float/w-overflow" % d, base + [z3.fpIsInf(z3.fpDiv(nk.RNE, z3.fpSignedToFP(nk.RNE, x.bv, F), dv.fp))],
                    "sat", backend="cvc5", role="witness", timeout=120, family="witness"))
        # b4: float instance |x| < 2**63, integer divisor 0 < d <= 2**53.  Bit-blasting fp.rem on binary64 is `unknown` after 900 s in
        # cvc5 and z3, so the code's `float % int` is modelled by the definition of fmod on the IEEE fields (numkern.mod); the query
        # still decides which operator the code applies to these kinds and what it does with the result.
        x, wx = nk.mk("float", "x")
        dv, wd = nk.mk("int64", "d")
        uf4 = lambda a, b: z3.Bool("ratio_is_integer")          # noqa: E731
        ev = nk.evaluate(cls, fn, kw, dv, x, src=src, exact_float_rem=True, ratio_is_integer=uf4)
        s_, m_, e_ = fields(x.bits)
        integral = float_is_integral_fields(x.bits)
        mag = z3.If(e_ >= 0, m_ << z3.ZeroExt(48, e_), z3.LShR(m_, z3.ZeroExt(48, -e_)))
        spec_mult = z3.And(integral, z3.URem(mag, dv.bv) == 0)
        base = [wx, wd, dv.bv > 0, dv.bv <= 2 ** 53, e_ <= 10]
        qs.append(Q("mul/d%d/float63-int53/exact" % d, base + [ev.fails == spec_mult], "unsat", backend="z3", timeout=300,
                    replay=rp, operands=(x, dv, None), family="multipleOf exact: float (< 2**63) % int (<= 2**53), fmod by definition"))
        qs.append(Q("mul/d%d/float63-int53/w-fails" % d, base + [ev.fails], "sat", backend="z3", role="witness", timeout=120, family="witness"))
        # b5: float / float whenever the division itself is exact
        x, wx = nk.mk("float", "x")
        dv, wd = nk.mk("float", "d")
        ev = nk.evaluate(cls, fn, kw, dv, x, ratio_is_integer=lambda a, b: z3.Bool("ratio_is_integer"), src=src)
        qn = z3.fpDiv(z3.RTN(), x.fp, dv.fp)
        qp = z3.fpDiv(z3.RTP(), x.fp, dv.fp)
        qb = z3.BitVec("q_bits", 64)
        exact = z3.And(qn == qp, nk.finite_bits(qb), z3.fpBVToFP(qb, F) == qn)
        spec_mult = float_is_integral_fields(qb)
        base = [wx, wd, nk.positive(dv), exact]
        qs.append(Q("mul/d%d/float-float-exactdiv/exact" % d, base + [ev.fails == spec_mult], "unsat", backend="cvc5", timeout=900,
                    replay=rp, operands=(x, dv, None), family="multipleOf exact: float / float whenever the quotient is exactly representable"))
    return qs, notes


# ------------------------------------------------------------------------------------------------
# running

def _run_one(args):
    qid, smt_assertions_builder = args
    return qid


def run_queries(qs, jobs=16, cross_check=False):
    """Solve all queries on a fork pool.  -> {qid: dict(result, seconds, backend, model-values)}"""
    ctx = mp.get_context("fork")
    results = {}
    pending = list(qs)
    running = []

    def child(conn, q):
        try:
            r, dt, model = nk.solve(q.assertions, timeout=q.timeout, backend=q.backend, want_model=(q.expect == "unsat"))
            vals = None
            if model is not None and q.operands is not None:
                x, m, excl = q.operands
                vals = {"instance": nk.model_number(model, x), "operand": nk.model_number(model, m)}
                if excl is not None and not z3.is_false(excl):
                    vals["exclusive"] = bool(z3.is_true(model.eval(excl, model_completion=True)))
            out = {"result": r, "seconds": round(dt, 2), "backend": q.backend, "values": vals}
            if cross_check and q.role == "claim" and r != "unknown":
                other = "z3" if q.backend == "cvc5" else "cvc5"
                r2, dt2, _ = nk.solve(q.assertions, timeout=q.timeout, backend=other)
                out["cross"] = {"backend": other, "result": r2, "seconds": round(dt2, 2)}
            conn.send(out)
        except BaseException as e:  # noqa
            conn.send({"result": "unknown", "seconds": 0.0, "backend": q.backend, "values": None, "error": repr(e)})
        finally:
            conn.close()
            os._exit(0)

    while pending or running:
        while pending and len(running) < jobs:
            q = pending.pop(0)
            a, b = ctx.Pipe(duplex=False)
            p = ctx.Process(target=child, args=(b, q))
            p.start()
            b.close()
            running.append((p, a, q, time.time()))
        time.sleep(0.01)
        still = []
        for p, conn, q, t0 in running:
            if conn.poll():
                try:
                    results[q.qid] = conn.recv()
                except EOFError:
                    results[q.qid] = {"result": "unknown", "seconds": time.time() - t0, "backend": q.backend, "values": None}
                p.join(2)
                conn.close()
            elif not p.is_alive():
                results[q.qid] = {"result": "unknown", "seconds": time.time() - t0, "backend": q.backend, "values": None,
                                  "error": "solver process died"}
                conn.close()
            elif time.time() - t0 > q.timeout * (2.2 if cross_check else 1.1) + 60:
                p.kill()
                results[q.qid] = {"result": "unknown", "seconds": time.time() - t0, "backend": q.backend, "values": None,
                                  "error": "hard timeout"}
                conn.close()
            else:
                still.append((p, conn, q, t0))
        running = still
    return results


# ------------------------------------------------------------------------------------------------
# translator validation (Serval-style): concrete operands through the real code and through the encoding

CORNERS = [2 ** 53 - 1, 2 ** 53, 2 ** 53 + 1, -(2 ** 53) - 1, 0, -1, 1, 3, 7, 10, 2 ** 62, -(2 ** 62), 10 ** 400, -(10 ** 400),
           2 ** 1024, 0.0, -0.0, 0.5, 1.5, 2.0 ** 53, 2.0 ** 53 + 2, 1e308, -1e308, 5e-324, 1e-308, 2.0 ** -1074 * 3, 0.1, 0.3,
           3.0, 4.5, 2.0 ** 60, 2.0 ** 1023, 9007199254740993.0, 1.25, 0.75, 2.0 ** -30, 12.0]


def suite_numeric_cases():
    import glob
    out = []
    for d in (3, 4, 6, 7):
        names = ["minimum", "maximum", "exclusiveMinimum", "exclusiveMaximum", "multipleOf", "divisibleBy"]
        from vf.harness import REPO
        files = [REPO + "/json/tests/draft%d/%s.json" % (d, n) for n in names]
        files += [REPO + "/json/tests/draft%d/optional/%s.json" % (d, n) for n in ("bignum", "float-overflow")]
        for f in files:
            if not os.path.exists(f):
                continue
            for case in json.load(open(f)):
                s = case["schema"]
                if not isinstance(s, dict):
                    continue
                for t in case["tests"]:
                    x = t["data"]
                    if isinstance(x, bool) or not isinstance(x, (int, float)):
                        continue
                    out.append((d, s, x))
    return out


def encoded_verdict(cls, kw, operand, instance, extra_concrete):
    """('fails'|'passes'|'raises:<name>'|None) of the encoding on concrete operands; None = kinds outside the encoding."""
    ki, ko = nk.kind_of_number(instance), nk.kind_of_number(operand)
    if ki is None or ko is None:
        return None
    x = nk.concrete_value(ki, instance)
    m = nk.concrete_value(ko, operand)
    extra = {k: nk.PyBool(z3.BoolVal(bool(v))) for k, v in extra_concrete.items()}
    from fractions import Fraction

    def ratio(a, b):
        return z3.BoolVal((Fraction(instance) / Fraction(operand)).denominator == 1)

    ev = nk.evaluate(cls, cls.VALIDATORS[kw], kw, m, x, schema_extra=extra, ratio_is_integer=ratio)
    for cond, name in ev.raised:
        c = z3.simplify(cond)
        if z3.is_true(c):
            return "raises:" + name
        if not z3.is_false(c):
            r, _, _ = nk.solve([cond], timeout=20)
            if r == "sat":
                return "raises:" + name
    f = z3.simplify(ev.fails)
    if z3.is_true(f):
        return "fails"
    if z3.is_false(f):
        return "passes"
    r, _, _ = nk.solve([ev.fails], timeout=20)
    return {"sat": "fails", "unsat": "passes"}.get(r)


def real_verdict(cls, schema, instance):
    try:
        return "passes" if cls(schema).is_valid(instance) else "fails"
    except Exception as e:
        return "raises:" + type(e).__name__


def validate_translator(limit_pairs=None):
    """-> dict(cases, disagreements[list])"""
    cl = classes()
    n = 0
    bad = []
    seen = set()

    def one(d, kw, operand, instance, extra):
        nonlocal n
        key = (d, kw, repr(operand), repr(instance), tuple(sorted(extra.items())))
        if key in seen:
            return
        seen.add(key)
        cls = cl[d]
        if kw not in cls.VALIDATORS:
            return
        if kw in ("multipleOf", "divisibleBy") and not operand > 0:
            return
        enc = encoded_verdict(cls, kw, operand, instance, extra)
        if enc is None:
            return
        schema = dict({kw: operand}, **extra)
        real = real_verdict(cls, schema, instance)
        n += 1
        if enc != real:
            bad.append({"draft": d, "schema": repr(schema), "instance": repr(instance), "encoding": enc, "real": real})

    for d, s, x in suite_numeric_cases():
        for kw in ("minimum", "maximum", "exclusiveMinimum", "exclusiveMaximum", "multipleOf", "divisibleBy"):
            if kw in s and isinstance(s[kw], (int, float)) and not isinstance(s[kw], bool):
                extra = {}
                if d in (3, 4):
                    fl = {"minimum": "exclusiveMinimum", "maximum": "exclusiveMaximum"}.get(kw)
                    if fl and fl in s:
                        extra[fl] = s[fl]
                one(d, kw, s[kw], x, extra)
    pairs = [(a, b) for a in CORNERS for b in CORNERS]
    if limit_pairs:
        pairs = pairs[::max(1, len(pairs) // limit_pairs)]
    for a, b in pairs:
        for d in (4, 7):
            one(d, "minimum", b, a, {})
            one(d, "maximum", b, a, {})
            if d == 4:
                one(d, "minimum", b, a, {"exclusiveMinimum": True})
                one(d, "maximum", b, a, {"exclusiveMaximum": True})
            else:
                one(d, "exclusiveMinimum", b, a, {})
                one(d, "exclusiveMaximum", b, a, {})
            one(d, "multipleOf", b, a, {})
        one(3, "divisibleBy", b, a, {})
    return {"cases": n, "disagreements": bad}
