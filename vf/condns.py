"""Namespace module that generated condition functions claim as their __module__ (CrossHair looks it up)."""
