"""Schema templates with typed holes (DESIGN 2.4).

A template is a schema skeleton whose leaves (bounds, lengths, names in arrays, enum members, flags,
boolean subschemas, indices into concrete catalogues) are symbolic.  Keys of schema objects, regular
expressions and type names are concrete catalogue members (native hashing, DESIGN 2.1).

The table is consulted by several properties (C01, C04, C05, C06, C10, C17): each passes its own
`check(draft, schema, instance) -> (ok, tag)`.
"""
from typing import Dict, List, Union

from jsonschema import Draft3Validator, Draft4Validator, Draft6Validator, Draft7Validator

from vf.harness import KIND_TYPES, Scalar, Spec, pick, small

CLS = {3: Draft3Validator, 4: Draft4Validator, 6: Draft6Validator, 7: Draft7Validator}
ALL = (3, 4, 6, 7)
D4P = (4, 6, 7)
D6P = (6, 7)
TYPES = {
    3: ["integer", "number", "string", "boolean", "null", "array", "object", "any"],
    4: ["integer", "number", "string", "boolean", "null", "array", "object"],
}
TYPES[6] = TYPES[7] = TYPES[4]
# subset on which Python re.search, ECMA 262 and CrossHair's matcher agree; "" is there on purpose
REGEXES = ["^a", "b$", "a|b", "^[0-9]+$", ".", "^$", "[a-c]x?", ""]
MULT = {3: "divisibleBy", 4: "multipleOf", 6: "multipleOf", 7: "multipleOf"}

NUM, STR, ARR, OBJ = ["int"], ["str"], ["arr_int"], ["obj_int"]
ANY = ["int", "str"]


class T:
    def __init__(self, name, drafts, holes, mk, kinds, pre=None, group="T1", nest=None, tags=None):
        self.name, self.drafts, self.holes, self.mk, self.kinds = name, drafts, holes, mk, kinds
        self.pre, self.group = pre, group
        self.nest = nest
        self.tags = tags or {}      # kind -> reachable verdict classes, where not both

    def tags_for(self, kind):
        return tuple(self.tags.get(kind.split("#")[0], self.tags.get("*", ("valid", "invalid"))))


def ty(d, i):
    return pick(TYPES[d], i)


def rx(i):
    return pick(REGEXES, i)


def tyok(d, *idx):
    return all(0 <= i < len(TYPES[d]) for i in idx)


def rxok(*idx):
    return all(0 <= i < len(REGEXES) for i in idx)


TEMPLATES: List[T] = []


def add(*a, **k):
    TEMPLATES.append(T(*a, **k))


I, B, S, SC = int, bool, str, Scalar

# ---- T1: every keyword alone -----------------------------------------------------------------
add("minimum", ALL, [("a", I)], lambda d, a: {"minimum": a}, NUM)
add("maximum", ALL, [("a", I)], lambda d, a: {"maximum": a}, NUM)
add("exclusiveMinimum", D6P, [("a", I)], lambda d, a: {"exclusiveMinimum": a}, NUM)
add("exclusiveMaximum", D6P, [("a", I)], lambda d, a: {"exclusiveMaximum": a}, NUM)
add("exclusiveMinimum_alone_bool", (3,), [("e", B)], lambda d, e: {"exclusiveMinimum": e}, NUM, tags={"*": ("valid",)})
add("multipleOf", ALL, [("m", I)], lambda d, m: {MULT[d]: m}, NUM, pre=lambda d, m: m > 0)
add("minLength", ALL, [("n", I)], lambda d, n: {"minLength": n}, STR, pre=lambda d, n: n >= 0)
add("maxLength", ALL, [("n", I)], lambda d, n: {"maxLength": n}, STR, pre=lambda d, n: n >= 0)
add("pattern", ALL, [("p", I)], lambda d, p: {"pattern": rx(p)}, STR, pre=lambda d, p: rxok(p))
add("minItems", ALL, [("n", I)], lambda d, n: {"minItems": n}, ARR, pre=lambda d, n: n >= 0)
add("maxItems", ALL, [("n", I)], lambda d, n: {"maxItems": n}, ARR, pre=lambda d, n: n >= 0)
add("uniqueItems", ALL, [("u", B)], lambda d, u: {"uniqueItems": u}, ["arr_int", "arr_str", "arr_scalar"])
add("items_schema", ALL, [("a", I)], lambda d, a: {"items": {"maximum": a}}, ARR)
add("items_bool", D6P, [("b", B)], lambda d, b: {"items": b}, ARR)
add("items_tuple", ALL, [("a", I), ("b", I)], lambda d, a, b: {"items": [{"maximum": a}, {"minimum": b}]}, ARR)
add("items_tuple_addl_bool", ALL, [("a", I), ("ai", B)],
    lambda d, a, ai: {"items": [{"maximum": a}], "additionalItems": ai}, ARR)
add("items_tuple_addl_schema", ALL, [("a", I), ("c", I)],
    lambda d, a, c: {"items": [{"maximum": a}], "additionalItems": {"minimum": c}}, ARR)
add("additionalItems_alone", ALL, [("ai", B)], lambda d, ai: {"additionalItems": ai}, ARR, tags={"*": ("valid",)})
add("items_schema_addl", ALL, [("a", I), ("ai", B)],
    lambda d, a, ai: {"items": {"maximum": a}, "additionalItems": ai}, ARR)
add("contains", D6P, [("a", I)], lambda d, a: {"contains": {"minimum": a}}, ARR)
add("contains_bool", D6P, [("b", B)], lambda d, b: {"contains": b}, ARR)
add("minProperties", D4P, [("n", I)], lambda d, n: {"minProperties": n}, OBJ, pre=lambda d, n: n >= 0)
add("maxProperties", D4P, [("n", I)], lambda d, n: {"maxProperties": n}, OBJ, pre=lambda d, n: n >= 0)
add("required", D4P, [("r", S)], lambda d, r: {"required": [r, "a"]}, OBJ)
add("properties", ALL, [("a", I), ("b", I)],
    lambda d, a, b: {"properties": {"a": {"maximum": a}, "": {"minimum": b}}}, OBJ)
add("properties_bool", D6P, [("a", B), ("b", B)], lambda d, a, b: {"properties": {"a": a, "b": b}}, OBJ)
add("properties_required_d3", (3,), [("rq", B), ("a", I)],
    lambda d, rq, a: {"properties": {"a": {"required": rq, "maximum": a}, "b": {"required": True}}}, OBJ)
add("patternProperties", ALL, [("a", I), ("b", I)],
    lambda d, a, b: {"patternProperties": {"^a": {"maximum": a}, "b$": {"minimum": b}}}, OBJ)
add("additionalProperties_bool", ALL, [("ap", B)], lambda d, ap: {"additionalProperties": ap}, OBJ)
add("additionalProperties_schema", ALL, [("a", I)], lambda d, a: {"additionalProperties": {"maximum": a}}, OBJ)
add("propertyNames", D6P, [("n", I), ("p", I)],
    lambda d, n, p: {"propertyNames": {"maxLength": n, "pattern": rx(p)}}, OBJ, pre=lambda d, n, p: n >= 0 and rxok(p))
add("propertyNames_bool", D6P, [("b", B)], lambda d, b: {"propertyNames": b}, OBJ)
add("dependencies_array", ALL, [("r", S)], lambda d, r: {"dependencies": {"a": [r, "b"], "b": []}}, OBJ)
add("dependencies_schema", ALL, [("n", I)],
    lambda d, n: {"dependencies": {"a": {"properties": {"b": {"maximum": n}}}, "": {"minItems": 1}}}, OBJ)
add("dependencies_string_d3", (3,), [("r", S)], lambda d, r: {"dependencies": {"a": r}}, OBJ)
add("dependencies_bool", D6P, [("b", B), ("c", B)], lambda d, b, c: {"dependencies": {"a": b, "b": c}}, OBJ)
add("type", ALL, [("t", I)], lambda d, t: {"type": ty(d, t)}, ANY + ["null", "bool", "arr_int", "obj_int"],
    pre=lambda d, t: tyok(d, t))
add("type_list", ALL, [("t", I), ("u", I)], lambda d, t, u: {"type": [ty(d, t), ty(d, u)]},
    ANY + ["null", "bool", "arr_int", "obj_int"], pre=lambda d, t, u: tyok(d, t, u))
add("enum", ALL, [("c", SC), ("e", SC)], lambda d, c, e: {"enum": [c, e]}, ["int", "str", "bool", "null"])
add("const", D6P, [("c", SC)], lambda d, c: {"const": c}, ["int", "str", "bool", "null"])
add("allOf", D4P, [("a", I), ("b", I)], lambda d, a, b: {"allOf": [{"maximum": a}, {"minimum": b}]}, NUM)
add("anyOf", D4P, [("a", I), ("b", I)], lambda d, a, b: {"anyOf": [{"maximum": a}, {"minimum": b}]}, NUM)
add("oneOf", D4P, [("a", I), ("b", I)], lambda d, a, b: {"oneOf": [{"maximum": a}, {"minimum": b}]}, NUM)
add("oneOf3", D4P, [("a", I), ("b", I), ("c", I)],
    lambda d, a, b, c: {"oneOf": [{"maximum": a}, {"minimum": b}, {MULT[d]: 2, "maximum": c}]}, NUM)
add("not", D4P, [("a", I)], lambda d, a: {"not": {"maximum": a}}, NUM)
add("anyOf_mixed", D4P, [("t", I), ("n", I)], lambda d, t, n: {"anyOf": [{"type": ty(d, t)}, {"minLength": n}]}, ANY,
    pre=lambda d, t, n: tyok(d, t) and n >= 0, tags={"int": ("valid",)})
add("bool_applicators", D6P, [("a", B), ("b", B), ("c", B)],
    lambda d, a, b, c: {"allOf": [a, True], "anyOf": [b, False], "not": c}, NUM)
add("oneOf_bool", D6P, [("a", B), ("b", B)], lambda d, a, b: {"oneOf": [a, b]}, NUM)
add("bool_root", D6P, [("b", B)], lambda d, b: b, NUM)
add("if_then_else", (7,), [("a", I), ("b", I), ("c", I)],
    lambda d, a, b, c: {"if": {"maximum": a}, "then": {"minimum": b}, "else": {MULT[d]: 2, "maximum": c}}, NUM)
add("if_then", (7,), [("a", I), ("b", I)], lambda d, a, b: {"if": {"maximum": a}, "then": {"minimum": b}}, NUM)
add("if_else", (7,), [("a", I), ("b", I)], lambda d, a, b: {"if": {"maximum": a}, "else": {"minimum": b}}, NUM)
add("if_alone", (7,), [("a", I)], lambda d, a: {"if": {"maximum": a}}, NUM, tags={"*": ("valid",)})
add("then_else_alone", (7,), [("a", I), ("b", I)], lambda d, a, b: {"then": {"maximum": a}, "else": {"minimum": b}}, NUM,
    tags={"*": ("valid",)})
add("if_bool", (7,), [("i", B), ("t", B), ("e", B)], lambda d, i, t, e: {"if": i, "then": t, "else": e}, NUM)
add("extends_d3", (3,), [("a", I), ("b", I), ("c", I)],
    lambda d, a, b, c: {"extends": [{"minimum": a}, {"maximum": b}, {"divisibleBy": 3, "minimum": c}]}, NUM)
add("extends_single_d3", (3,), [("a", I)], lambda d, a: {"extends": {"minimum": a}}, NUM)
add("disallow_d3", (3,), [("t", I), ("c", I)], lambda d, t, c: {"disallow": [ty(d, t), {"type": "number", "minimum": c}]}, ANY,
    pre=lambda d, t, c: tyok(d, t))
add("disallow_single_d3", (3,), [("t", I)], lambda d, t: {"disallow": ty(d, t)}, ANY, pre=lambda d, t: tyok(d, t))
add("type_schema_d3", (3,), [("t", I), ("n", I), ("a", I)],
    lambda d, t, n, a: {"type": [ty(d, t), {"type": "string", "maxLength": n}, {"type": "number", "minimum": a}]}, ANY, pre=lambda d, t, n, a: tyok(d, t) and n >= 0)

# object members of every scalar kind (null, booleans, strings), not only integers
add("properties_scalar_members", ALL, [("t", I), ("c", SC)],
    lambda d, t, c: {"properties": {"a": {"type": ty(d, t)}, "b": {"enum": [c, 1]}}, "additionalProperties": {"type": "null"}},
    ["obj_scalar#01"], pre=lambda d, t, c: tyok(d, t))
add("patternProperties_scalar_members", ALL, [("t", I)],
    lambda d, t: {"patternProperties": {"^a": {"type": ty(d, t)}, "b$": {"disallow": ["null"]} if d == 3 else {"not": {"type": "null"}}}},
    ["obj_scalar#01"], pre=lambda d, t: tyok(d, t))
add("items_scalar_members", ALL, [("t", I), ("c", SC)], lambda d, t, c: {"items": [{"type": ty(d, t)}, {"enum": [c]}], "additionalItems": {"type": "null"}},
    ["arr_scalar#01"], pre=lambda d, t, c: tyok(d, t))
add("dependencies_scalar_members", ALL, [("t", I)], lambda d, t: {"dependencies": {"a": ["b"], "b": {"properties": {"a": {"type": ty(d, t)}}}}},
    ["obj_scalar#01"], pre=lambda d, t: tyok(d, t))

# the empty schema {} in every subschema position (it is falsy in Python: a truthiness test instead of a type test changes its meaning)
def _es(e, a):
    return {} if e else {"maximum": a}


add("empty_additionalProperties", ALL, [("e", B), ("a", I)], lambda d, e, a: {"additionalProperties": _es(e, a), "properties": {"b": {}}}, OBJ)
add("empty_items", ALL, [("e", B), ("a", I)], lambda d, e, a: {"items": _es(e, a)}, ARR)
add("empty_items_tuple_addl", ALL, [("e", B), ("a", I)], lambda d, e, a: {"items": [_es(e, a)], "additionalItems": _es(not e, a)}, ARR)
add("empty_properties", ALL, [("e", B), ("a", I)], lambda d, e, a: {"properties": {"a": _es(e, a), "b": _es(not e, a)}}, OBJ)
add("empty_patternProperties", ALL, [("e", B), ("a", I)], lambda d, e, a: {"patternProperties": {"^a": _es(e, a)}, "additionalProperties": False}, OBJ)
add("empty_dependencies", ALL, [("e", B), ("a", I)], lambda d, e, a: {"dependencies": {"a": _es(e, a), "b": {"properties": {"a": _es(not e, a)}}}}, OBJ)
add("empty_not", D4P, [("e", B), ("a", I)], lambda d, e, a: {"not": _es(e, a)}, NUM)
add("empty_anyOf_oneOf", D4P, [("e", B), ("a", I)], lambda d, e, a: {"anyOf": [_es(e, a), {"minimum": a}], "oneOf": [{"maximum": a}, _es(e, a)]}, NUM)
add("empty_allOf", D4P, [("e", B), ("a", I)], lambda d, e, a: {"allOf": [_es(e, a), {}]}, NUM)
add("empty_contains_names", D6P, [("e", B), ("a", I)], lambda d, e, a: {"contains": _es(e, a), "propertyNames": _es(e, a)}, ["arr_int", "obj_int"], tags={"obj_int": ("valid",)})
add("empty_if", (7,), [("e", B), ("f", B), ("a", I)], lambda d, e, f, a: {"if": _es(e, a), "then": _es(f, a + 1), "else": _es(not f, a - 1)}, NUM)
add("empty_extends_disallow_d3", (3,), [("e", B), ("a", I)], lambda d, e, a: {"extends": _es(e, a), "disallow": [_es(not e, a)], "type": [_es(e, a - 1), "string"]}, NUM)
add("empty_enum_required", D4P, [("e", B)], lambda d, e: {"required": [] if e else ["a"], "dependencies": {"a": [] if e else ["b"]}}, OBJ)

# ---- T2: sibling-interaction groups -----------------------------------------------------------
add("g_min_excl_bool", (3, 4), [("a", I), ("e", B)], lambda d, a, e: {"minimum": a, "exclusiveMinimum": e}, NUM, group="T2")
add("g_max_excl_bool", (3, 4), [("a", I), ("e", B)], lambda d, a, e: {"maximum": a, "exclusiveMaximum": e}, NUM, group="T2")
add("g_minmax_excl_bool", (3, 4), [("a", I), ("b", I), ("e", B), ("f", B)],
    lambda d, a, b, e, f: {"minimum": a, "exclusiveMinimum": e, "maximum": b, "exclusiveMaximum": f}, NUM, group="T2")
add("g_minmax_excl_num", D6P, [("a", I), ("b", I), ("c", I), ("e", I)],
    lambda d, a, b, c, e: {"minimum": a, "exclusiveMinimum": b, "maximum": c, "exclusiveMaximum": e}, NUM, group="T2")
add("g_object", ALL, [("a", I), ("b", I), ("ap", B)],
    lambda d, a, b, ap: {"properties": {"ab": {"maximum": a}}, "patternProperties": {"^a": {"minimum": b}, "b$": {"type": "string"}},
                         "additionalProperties": ap}, OBJ, group="T2")
add("g_object_required", D4P, [("r", S), ("a", I), ("ap", B)],
    lambda d, r, a, ap: {"required": [r], "properties": {"ab": {"maximum": a}}, "patternProperties": {"b$": {"type": "string"}},
                         "additionalProperties": ap}, OBJ, group="T2")
add("g_object_apschema", ALL, [("a", I), ("b", I), ("c", I)],
    lambda d, a, b, c: {"properties": {"a": {"maximum": a}}, "patternProperties": {"^b": {"minimum": b}},
                        "additionalProperties": {MULT[d]: 2, "maximum": c}}, OBJ, group="T2")
add("g_object_emptypattern", ALL, [("ap", B), ("a", I)],
    lambda d, ap, a: {"patternProperties": {"": {"maximum": a}}, "additionalProperties": ap}, OBJ, group="T2")
add("g_array", ALL, [("a", I), ("n", I), ("ai", B), ("u", B)],
    lambda d, a, n, ai, u: {"items": [{"maximum": a}, {"type": "string"}], "additionalItems": ai, "minItems": n, "uniqueItems": u},
    ["arr_int", "arr_scalar"], pre=lambda d, a, n, ai, u: n >= 0, group="T2")
add("g_array_boolitems", D6P, [("b", B), ("ai", B)], lambda d, b, ai: {"items": b, "additionalItems": ai}, ARR, group="T2")
add("g_array_contains", D6P, [("a", I), ("b", I), ("n", I)],
    lambda d, a, b, n: {"contains": {"minimum": a}, "items": {"maximum": b}, "maxItems": n}, ARR, pre=lambda d, a, b, n: n >= 0, group="T2")
add("g_deps_all", D4P, [("r", S), ("n", I)],
    lambda d, r, n: {"dependencies": {"a": [r], "b": {"maxProperties": n}}, "required": ["a"]}, OBJ,
    pre=lambda d, r, n: n >= 0, group="T2")
add("g_deps_d3", (3,), [("r", S), ("q", S), ("a", I)],
    lambda d, r, q, a: {"dependencies": {"a": r, "b": [q], "c": {"properties": {"a": {"maximum": a}}}}}, OBJ, group="T2")
add("g_d3ext", (3,), [("a", I), ("b", I), ("c", I), ("t", I)],
    lambda d, a, b, c, t: {"extends": [{"minimum": a}, {"maximum": b}, {"divisibleBy": 3, "disallow": [ty(d, t), {"type": "number", "minimum": c}]}],
                           "type": ["number", {"type": "string", "maxLength": 1}]}, ANY, pre=lambda d, a, b, c, t: tyok(d, t), group="T2")
add("g_d3_props_required", (3,), [("rq", B), ("ap", B), ("a", I)],
    lambda d, rq, ap, a: {"properties": {"a": {"required": rq, "minimum": a}, "b": {"required": True}}, "additionalProperties": ap},
    OBJ, group="T2")
add("g_string", ALL, [("n", I), ("m", I), ("p", I)],
    lambda d, n, m, p: {"minLength": n, "maxLength": m, "pattern": rx(p)}, STR, pre=lambda d, n, m, p: n >= 0 and m >= 0 and rxok(p),
    group="T2")
add("g_enum_type", ALL, [("c", SC), ("t", I)], lambda d, c, t: {"enum": [c, 1, "a"], "type": ty(d, t)},
    ["int", "str", "bool"], pre=lambda d, c, t: tyok(d, t), group="T2")

# ---- T3: applicators nested in applicators ------------------------------------------------------
# (wrapper name, drafts, function schema->schema, instance-kind transformer)
WRAPPERS = [
    ("allOf", D4P, lambda s, o: {"allOf": [o, s]}, None),
    ("anyOf", D4P, lambda s, o: {"anyOf": [o, s]}, None),
    ("oneOf", D4P, lambda s, o: {"oneOf": [o, s]}, None),
    ("not", D4P, lambda s, o: {"not": s}, None),
    ("if", (7,), lambda s, o: {"if": o, "then": s, "else": s}, None),
    ("extends", (3,), lambda s, o: {"extends": [o, s]}, None),
    ("type_schema", (3,), lambda s, o: {"type": ["null", s]}, None),
    ("disallow_schema", (3,), lambda s, o: {"disallow": [s]}, None),
    ("items", ALL, lambda s, o: {"items": s}, "arr"),
    ("items_tuple", ALL, lambda s, o: {"items": [o, s], "additionalItems": s}, "arr"),
    ("contains", D6P, lambda s, o: {"contains": s}, "arr"),
    ("properties", ALL, lambda s, o: {"properties": {"a": o, "b": s}}, "obj"),
    ("patternProperties", ALL, lambda s, o: {"patternProperties": {"^a": o, "b$": s}}, "obj"),
    ("additionalProperties", ALL, lambda s, o: {"properties": {"a": o}, "additionalProperties": s}, "obj"),
    ("dependencies", ALL, lambda s, o: {"dependencies": {"a": {"properties": {"b": o}}, "b": {"properties": {"a": o, "b": s}}}}, "obj"),
]
WRAP = {w[0]: w for w in WRAPPERS}
NEST = {("int", "arr"): "arr_int", ("int", "obj"): "obj_int", ("arr_int", "arr"): "arr_arr_int",
        ("obj_int", "arr"): "arr_obj_int", ("arr_int", "obj"): "obj_arr_int", ("obj_int", "obj"): "obj_obj_int"}


def nested(outer, inner, d, a, b):
    leaf = {"maximum": a}
    other = {"minimum": b}
    return WRAP[outer][2](WRAP[inner][2](leaf, other), other)


def nest_kind(outer, inner):
    k = "int"
    if WRAP[inner][3]:
        k = NEST[(k, WRAP[inner][3])]
    if WRAP[outer][3]:
        k = NEST[(k, WRAP[outer][3])]
    return k


def _mk_nested(outer, inner):
    return lambda d, a, b: nested(outer, inner, d, a, b)


for _o in WRAPPERS:
    for _i in WRAPPERS:
        _dr = tuple(x for x in ALL if x in _o[1] and x in _i[1])
        if not _dr:
            continue
        add("n_%s__%s" % (_o[0], _i[0]), _dr, [("a", I), ("b", I)], _mk_nested(_o[0], _i[0]), [nest_kind(_o[0], _i[0])],
            group="T3", nest=(_o[0], _i[0]))

BY_NAME = {t.name: t for t in TEMPLATES}


def pair_names(group=("T1",)):
    """T4: ordered pairs of single-keyword templates whose top-level keys are disjoint."""
    ts = [t for t in TEMPLATES if t.group in group and t.name != "bool_root"]
    out = []
    for i, a in enumerate(ts):
        for b in ts[i + 1:]:
            out.append((a.name, b.name))
    return out


def rest_type(kinds):
    """Union of the instance kinds a template does not single out (type gating)."""
    base = ["null", "bool", "int", "str", "arr_int", "obj_int"]
    fam = set(k.split("_")[0] for k in kinds)
    left = [k for k in base if k.split("_")[0] not in fam]
    if not left:
        return None
    return Union[tuple(KIND_TYPES[k] for k in left)]


def make_spec(name, draft, kind, check, L=2, N=2, pair=None, tags=("valid", "invalid"), N2=None):
    """Condition: for all holes and all instances of `kind` within the bounds, check(draft, schema, x)."""
    t = BY_NAME[name]
    ts = [t] + ([BY_NAME[pair]] if pair else [])
    holes = []
    for j, tt in enumerate(ts):
        holes += [("h%d_%s" % (j, n), ty_) for n, ty_ in tt.holes]
    size = None
    if "#" in kind:                       # "obj_int#2": exactly 2 entries; "obj_int#01": at most 1
        kind, sz = kind.split("#")
        size = [int(c) for c in sz]
    xt = rest_type(t.kinds) if kind == "rest" else KIND_TYPES[kind]
    params = [("x", xt)] + holes
    nh = [len(tt.holes) for tt in ts]

    def split(hs):
        out, k = [], 0
        for n in nh:
            out.append(hs[k:k + n])
            k += n
        return out

    def pre(x, *hs):
        if size is not None and len(x) not in size:
            return False
        if not small(x, L, N, N2):
            return False
        for h in hs:
            if not small(h, L, N):
                return False
        for tt, part in zip(ts, split(hs)):
            if tt.pre is not None and not tt.pre(draft, *part):
                return False
        return True

    def body(x, *hs):
        schema = None
        for tt, part in zip(ts, split(hs)):
            s = tt.mk(draft, *part)
            if schema is None:
                schema = s
            else:
                schema = dict(schema)
                for k, v in s.items():
                    if k in schema:
                        from vf.harness import HarnessError
                        raise HarnessError("pair templates overlap on " + k)
                    schema[k] = v
        return check(draft, schema, x)

    return Spec(params, pre, body, tags=list(tags))


def top_keys(name, d):
    """Top-level keyword names a template produces (computed on dummy holes)."""
    t = BY_NAME[name]
    dummy = []
    for _, ty_ in t.holes:
        dummy.append(0 if ty_ is int else (False if ty_ is bool else ("a" if ty_ is str else 0)))
    s = t.mk(d, *dummy)
    return set(s) if isinstance(s, dict) else set()


TWO_LEVEL = ("arr_arr_int", "arr_obj_int", "obj_arr_int", "obj_obj_int")
SPLIT = {"obj_int": ["obj_int#01", "obj_int#2"], "arr_scalar": ["arr_scalar#01", "arr_scalar#2"]}


def gen_conditions(module, factory, tier, seed, groups=("T1", "T2", "T3", "T4"), rate=None, rest=True, only=None, witness_rate=0.15,
                   extra_params=None, tags_from_template=True, timeout_scale=1.0, pairs_quick=30, heavy_all_drafts=False, heavy_L=2, heavy_quick=True, t1_obj_small=False, always=(), thorough_t3=0.35, pairs_thorough=120):
    """Standard cube-and-conquer enumeration of the template table for one property.
    rate: per-group sampling probability in the quick tier (seeded)."""
    import random
    rng = random.Random(seed)
    quick = tier == "quick"
    rate = dict({"T1": 1.0, "T2": 1.0, "T3": 0.12, "T4": 1.0}, **(rate or {}))
    out = []

    def cond(t, d, kind, pair=None, L=2, N=2, N2=None, tags=None, timeout=300):
        if tags is None:
            tags = t.tags_for(kind) if (tags_from_template and pair is None and t.group != "T3") else ()
        cid = "%s/d%d/%s%s" % (t.name, d, kind, ("+" + pair) if pair else "")
        if (L, N, N2) != (2, 2, None):
            cid += "[L%d,N%d%s]" % (L, N, ",N2=%d" % N2 if N2 is not None else "")
        wit = list(tags) if (kind != "rest" and (not quick or rng.random() < witness_rate)) else []
        params = dict(name=t.name, draft=d, kind=kind, pair=pair, L=L, N=N, N2=N2, tags=list(tags))
        params.update(extra_params or {})
        out.append(dict(id=cid, module=module, factory=factory, params=params, timeout=int(timeout * timeout_scale), tags=list(tags),
                        witness=wit, wtimeout=60))

    for t in TEMPLATES:
        if only is not None and not only(t):
            continue
        if t.group not in groups:
            continue
        heavy_draft = rng.choice(list(t.drafts))
        for d in t.drafts:
            if quick and rng.random() >= rate.get(t.group, 1.0) and t.group != "T3" and t.name not in always:
                continue
            if t.group == "T1":
                for k in t.kinds:
                    if quick and t1_obj_small and k == "obj_int":
                        cond(t, d, "obj_int#01", tags=())       # with at most one member not every verdict class is reachable
                    else:
                        cond(t, d, k)
                if rest and rest_type(t.kinds) is not None and (not quick or t.name not in ("enum", "const", "type", "type_list")):
                    cond(t, d, "rest", tags=())
            elif t.group == "T2":
                for k in t.kinds:
                    for kk in SPLIT.get(k, [k]):
                        if quick and kk.endswith("#2") and (not heavy_quick or (d != heavy_draft and not heavy_all_drafts)):
                            continue
                        if quick and kk.endswith("#2") and heavy_L != 2:
                            cond(t, d, kk, L=heavy_L, timeout=900)
                        else:
                            cond(t, d, kk, timeout=900)
                if rest and rest_type(t.kinds) is not None and not (quick and t.name == "g_enum_type"):
                    cond(t, d, "rest", tags=(), timeout=600)
            elif t.group == "T3":
                k = t.kinds[0]
                if quick:
                    if rng.random() < rate["T3"]:
                        if k in TWO_LEVEL:
                            cond(t, d, k, L=1, N=2, N2=1, timeout=600)
                        elif k == "obj_int":
                            cond(t, d, "obj_int#01", timeout=600)
                        else:
                            cond(t, d, k, timeout=600)
                elif rng.random() < thorough_t3:
                    # thorough: a seeded share of the nestings (sized so that the tier runs end to end in the build round), deeper bounds
                    if k in TWO_LEVEL:
                        cond(t, d, k, L=1, N=2, N2=1, timeout=2400)
                    elif k == "obj_int":
                        cond(t, d, "obj_int#01", timeout=1800)
                        cond(t, d, "obj_int#2", L=1, timeout=2400)
                    else:
                        cond(t, d, k, timeout=1800)
    if "T4" in groups:
        pairs = pair_names()
        pairs = rng.sample(pairs, pairs_quick if quick else min(len(pairs), pairs_thorough))
        for a, b in pairs:
            ta, tb = BY_NAME[a], BY_NAME[b]
            if only is not None and not (only(ta) and only(tb)):
                continue
            ds = [d for d in ta.drafts if d in tb.drafts]
            if ds:
                ds = [rng.choice(ds)] if quick else rng.sample(ds, min(2, len(ds)))
            for d in ds:
                if top_keys(a, d) & top_keys(b, d):
                    continue
                ks = [k for k in ta.kinds if k in tb.kinds]
                for k in ks[:1]:
                    cond(ta, d, SPLIT.get(k, [k])[0] if quick else k, pair=b, timeout=900 if quick else 2400)
    return out
