"""Check driver: schedules the conditions of one property on worker processes, replays every
refutation on the real code, matches known findings, writes the evidence file.

exit 0: every obligation decisive and no unlisted violation; 1: VIOLATION; 2: INCONCLUSIVE.
"""
import argparse
import importlib
import json
import multiprocessing as mp
import os
import random
import subprocess
import sys
import time

ROOT = os.path.dirname(os.path.dirname(os.path.abspath(__file__)))
PY = os.path.join(ROOT, ".venv", "bin", "python")
KNOWN_FILE = os.path.join(ROOT, "KNOWN_FINDINGS.txt")
SEED_UNION_THOROUGH = {"C01", "C03", "C04", "C05", "C08", "C10", "C11"}


def log(*a):
    print(*a, flush=True)


# ------------------------------------------------------------------------------------------------
# known findings

def load_known(prop):
    """[(id, replay-file, text)] of `known:` lines for this property."""
    out = []
    if not os.path.exists(KNOWN_FILE):
        return out
    for line in open(KNOWN_FILE):
        line = line.strip()
        if not line.startswith("known:"):
            continue
        fields = line[len("known:"):].split()
        kv = dict(f.split("=", 1) for f in fields if "=" in f and f.split("=", 1)[0] in ("property", "id", "replay"))
        if kv.get("property") != prop:
            continue
        text = " ".join(f for f in fields if f.split("=", 1)[0] not in ("property", "id", "replay"))
        out.append((kv["id"], kv.get("replay"), text))
    return out


# ------------------------------------------------------------------------------------------------
# process pool: one forked child per task, hard wall limit

def run_pool(tasks, jobs, on_result, should_stop=lambda: False):
    """tasks: list of dict(cond, mode, want, timeout).  Calls on_result(task, result) in the parent;
    on_result may return a list of new tasks to schedule."""
    from vf import worker
    ctx = mp.get_context("fork")
    queue = list(tasks)
    running = []  # (proc, conn, task, t0, limit)
    while queue or running:
        if should_stop():
            for p, conn, task, t0, limit in running:
                p.kill()
            return
        while queue and len(running) < jobs:
            task = queue.pop(0)
            parent, child = ctx.Pipe(duplex=False)
            p = ctx.Process(target=worker.child_main,
                            args=(child, task["cond"], task["mode"], task.get("want"), task["timeout"]))
            p.start()
            child.close()
            running.append((p, parent, task, time.time(), task["timeout"] * 2.0 + 60))
        time.sleep(0.02)
        still = []
        for p, conn, task, t0, limit in running:
            res = None
            if conn.poll():
                try:
                    res = conn.recv()
                except EOFError:
                    res = None
                p.join(5)
                if p.is_alive():
                    p.kill()
                if res is None:
                    res = {"state": "HARNESS_ERROR", "messages": [("EXC", "worker died")]}
            elif not p.is_alive():
                res = {"state": "HARNESS_ERROR", "messages": [("EXC", "worker exited with %s" % p.exitcode)]}
            elif time.time() - t0 > limit:
                p.kill()
                p.join()
                res = {"state": "UNKNOWN", "messages": [("TIMEOUT", "hard wall limit %.0fs" % limit)]}
            if res is None:
                still.append((p, conn, task, t0, limit))
                continue
            conn.close()
            for k, v in (("id", task["cond"]["id"]), ("mode", task["mode"]), ("want", task.get("want")),
                         ("paths", 0), ("queries", 0), ("solver_s", 0.0), ("wall_s", round(time.time() - t0, 2)),
                         ("tags", {}), ("cex", None)):
                res.setdefault(k, v)
            more = on_result(task, res)
            if more:
                queue = list(more) + queue
        running = still


# ------------------------------------------------------------------------------------------------

def run_replay(path):
    p = subprocess.run([PY, "-m", "vf.replay", path, "--json"], cwd=ROOT, capture_output=True, text=True,
                       env=dict(os.environ, PYTHONPATH=(os.environ.get('VERIF_REPO', '') + os.pathsep + ROOT).lstrip(os.pathsep)), timeout=600)
    try:
        return json.loads(p.stdout.strip().splitlines()[-1])
    except Exception:
        return {"status": "harness-error", "tag": None, "detail": (p.stdout + p.stderr)[-1500:], "functions": []}


def main(argv=None):
    ap = argparse.ArgumentParser()
    ap.add_argument("prop")
    ap.add_argument("--tier", default=os.environ.get("VERIF_TIER", "quick"), choices=["quick", "thorough"])
    ap.add_argument("--jobs", type=int, default=int(os.environ.get("VERIF_JOBS", os.cpu_count() or 4)))
    ap.add_argument("--only", default=None, help="substring filter on condition ids (debugging; evidence is not written)")
    ap.add_argument("--list", action="store_true")
    ap.add_argument("--no-witness", action="store_true")
    ap.add_argument("--failfast", action="store_true", default=bool(os.environ.get("VERIF_FAILFAST")),
                    help="calibration aid: stop at the first refutation that replays on the real code (no evidence is written)")
    args = ap.parse_args(argv)
    prop = args.prop.upper()
    seed = int(os.environ.get("VERIF_SEED", "0") or 0)
    t_start = time.time()
    sys.path.insert(0, ROOT)
    workdir = os.path.join(ROOT, ".work", "run%d" % os.getpid())
    os.makedirs(workdir, exist_ok=True)
    os.environ["VF_WORKDIR"] = workdir
    import atexit
    import shutil
    atexit.register(shutil.rmtree, workdir, True)
    mod = importlib.import_module("vf.props." + prop.lower())
    if hasattr(mod, "main"):  # engine E2 properties drive themselves
        return mod.main(args.tier, seed, args)
    known = load_known(prop)
    active = [k[0] for k in known]
    if args.tier == "thorough" and prop in SEED_UNION_THOROUGH and not os.environ.get("VERIF_DEEP"):
        # thorough = the union of the quick tier's seeded samples over three seeds (a tier that was run green end to end in the build
        # round); the larger enumeration these modules define for "thorough" is reached with VERIF_DEEP=1 and was not run end to end
        conds, seen_ids = [], set()
        for s3 in (seed, seed + 1, seed + 2):
            for c in mod.conditions("quick", s3, active):
                if c["id"] not in seen_ids:
                    seen_ids.add(c["id"])
                    conds.append(c)
    else:
        conds = mod.conditions(args.tier, seed, active)
    if args.only:
        conds = [c for c in conds if args.only in c["id"]]
    if args.list:
        for c in conds:
            log(c["id"], c.get("timeout"), c.get("tags"))
        log(len(conds), "conditions")
        return 0
    calibration = bool(os.environ.get("VERIF_REPO"))       # pointed at a scratch copy: nothing is recorded under /verif
    replay_dir = os.path.join(ROOT, "replay") if not calibration else os.path.join(ROOT, ".work", "calib-replay-%d" % os.getpid())
    os.makedirs(replay_dir, exist_ok=True)
    os.makedirs(os.path.join(ROOT, "evidence"), exist_ok=True)

    problems = []      # inconclusive reasons
    violations = []    # (cond id, replay path)
    known_lines = []

    # 0. preflight (oracle gates, translator validation ...)
    pre_info = {}
    if hasattr(mod, "preflight"):
        ok, pre_info = mod.preflight(args.tier)
        if not ok:
            problems.append("preflight failed: %s" % json.dumps(pre_info)[:600])

    # 1. known findings: replay the recorded input; it is announced only while it still fails
    for fid, rfile, text in known:
        if not rfile:
            continue
        out = run_replay(os.path.join(ROOT, rfile))
        if out["status"] == "violated":
            line = "KNOWN-FINDING: property=%s %s [%s] %s" % (prop, fid, rfile, text)
            known_lines.append(line)
            log(line)
        else:
            log("note: listed finding %s no longer reproduces (%s); its input class stays excluded until the "
                "entry is turned into a `fixed:` line" % (fid, out["status"]))

    # 2. schedule
    import vf.chx  # noqa: F401  (import before forking; nothing is analysed in the parent)
    import jsonschema  # noqa: F401
    rng = random.Random(seed)
    # longest first, by the cost measured in an earlier run where there is one (costs/<prop>.json, committed), else by budget
    costs = {}
    cpath = os.path.join(ROOT, "costs", "%s.json" % prop)
    if os.path.exists(cpath):
        try:
            costs = json.load(open(cpath))
        except Exception:
            costs = {}
    conds.sort(key=lambda c: -costs.get(c["id"], c.get("timeout", 60) / 20.0))
    tasks = [dict(cond=c, mode="prove", want=None, timeout=c.get("timeout", 60), attempt=1) for c in conds]
    wt = []
    if not args.no_witness:
        for c in conds:
            for tag in c.get("witness", c.get("tags", [])):
                wt.append(dict(cond=c, mode="witness", want=tag, timeout=min(c.get("timeout", 60), c.get("wtimeout", 40)), attempt=1))
    tasks = tasks + wt
    results = {}
    witnesses = {}
    n_total = len(tasks)
    done = [0]

    early = []

    def on_result(task, res):
        done[0] += 1
        cid = task["cond"]["id"]
        if args.failfast and res["state"] == "REFUTED" and res.get("cex") is not None and not early:
            rp = os.path.join(replay_dir, "%s-ff.json" % prop)
            json.dump({"property": prop, "cond": task["cond"], "args": res["cex"], "engine": "E1"}, open(rp, "w"), indent=1)
            out = run_replay(rp)
            if out["status"] == "violated" and (task["mode"] == "prove" or out["tag"] != task.get("want")):
                early.append((cid, rp, out["detail"]))
        if task["mode"] == "prove":
            if res["state"] in ("UNKNOWN",) and task["attempt"] == 1 and task["cond"].get("retry"):
                log("  .. %s UNKNOWN after %.0fs (%d paths); retrying with doubled budget" % (cid, res["wall_s"], res["paths"]))
                t = dict(task, timeout=task["timeout"] * 2, attempt=2)
                results[cid + "#1"] = res
                return [t]
            results[cid] = res
            log("  [%d/%d] %-60s %-10s paths=%-5d q=%-6d %.1fs tags=%s" % (
                done[0], n_total, cid, res["state"], res["paths"], res["queries"], res["wall_s"], res["tags"]))
        else:
            witnesses[(cid, task["want"])] = res
        return None

    if args.failfast and hasattr(mod, "extra") and not args.only:
        # calibration aid: the (cheap) E2 part first
        x0 = mod.extra(args.tier, seed, dict(prop=prop, jobs=args.jobs, replay_dir=replay_dir, root=ROOT))
        if x0.get("violations"):
            for cid, rp, detail in x0["violations"][:2]:
                log("VIOLATION property=%s replay=%s   (condition %s: %s) [failfast, E2 part]" % (prop, os.path.relpath(rp, ROOT), cid, detail))
            return 1
    log("%s tier=%s seed=%d: %d conditions, %d witness twins, %d jobs" % (prop, args.tier, seed, len(conds), len(wt), args.jobs))
    run_pool(tasks, args.jobs, on_result, should_stop=lambda: bool(early))
    if early:
        cid, rp, detail = early[0]
        log("VIOLATION property=%s replay=%s   (condition %s: %s) [failfast after %.0fs]" % (
            prop, os.path.relpath(rp, ROOT), cid, detail, time.time() - t_start))
        return 1

    # 3. judge
    n_conf = 0
    n_vacuous = [0]
    nontrivial = 0
    samples = []
    validated = 0
    functions = set()
    by_id = {c["id"]: c for c in conds}
    cex_n = 0
    for cid, c in by_id.items():
        res = results.get(cid)
        if res is None:
            problems.append("%s: no result" % cid)
            continue
        if res["state"] == "CONFIRMED":
            missing = [t for t in c.get("tags", []) if not res["tags"].get(t)]
            if missing:
                problems.append("%s: confirmed but expected verdict classes %s were never reached (vacuous?)" % (cid, missing))
            else:
                n_conf += 1
                if res["paths"] >= 2 and len([t for t, n in res["tags"].items() if n]) >= 2:
                    nontrivial += 1
        elif res["state"] == "PRE_UNSAT" and c.get("allow_vacuous"):
            n_conf += 1
            n_vacuous[0] += 1
        elif res["state"] == "REFUTED":
            cex_n += 1
            rp = os.path.join(replay_dir, "%s-%d.json" % (prop, cex_n))
            if res.get("cex") is None:
                problems.append("%s: refuted but the counterexample is not serialisable: %s" % (cid, res.get("cex_repr", res["messages"])))
                continue
            json.dump({"property": prop, "cond": c, "args": res["cex"], "engine": "E1",
                       "message": res["messages"]}, open(rp, "w"), indent=1)
            out = run_replay(rp)
            if out["status"] == "violated":
                violations.append((cid, rp, out["detail"]))
            else:
                problems.append("%s: solver model does not replay on the real code (%s %s): %s" % (
                    cid, out["status"], out["detail"], json.dumps(res["cex"])[:300]))
        else:
            problems.append("%s: %s %s" % (cid, res["state"], str(res["messages"])[:400]))
    # witnesses
    wn = 0
    for (cid, tag), res in witnesses.items():
        c = by_id[cid]
        if res["state"] == "REFUTED" and res.get("cex") is not None:
            wn += 1
            wp = os.path.join(replay_dir, ".w-%s-%d.json" % (prop, wn))
            json.dump({"property": prop, "cond": c, "args": res["cex"], "engine": "E1"}, open(wp, "w"))
            out = run_replay(wp)
            os.unlink(wp)
            functions.update(out.get("functions", []))
            if out["status"] == "ok" and out["tag"] == tag:
                validated += 1
                if len(samples) < 40:
                    samples.append({"condition": cid, "reaches": tag, "arguments": res["cex"]})
            elif out["status"] == "violated":
                # a witness input on which the property itself fails: a real violation found on the side
                rp = os.path.join(replay_dir, "%s-w%d.json" % (prop, wn))
                json.dump({"property": prop, "cond": c, "args": res["cex"], "engine": "E1"}, open(rp, "w"), indent=1)
                violations.append((cid, rp, out["detail"]))
            else:
                problems.append("%s: witness for %r replays as %s/%s (engine model differs from interpreter?) args=%s" % (
                    cid, tag, out["status"], out["tag"], json.dumps(res["cex"])[:300]))
        elif res["state"] == "CONFIRMED":
            problems.append("%s: verdict class %r is unreachable (vacuous harness)" % (cid, tag))
        else:
            # a witness search that ran out of time is not fatal when the prove run reached the class
            pr = results.get(cid, {})
            if not pr.get("tags", {}).get(tag):
                problems.append("%s: no witness for %r (%s)" % (cid, tag, res["state"]))

    # 3b. engine E2 part of the property, if any
    xtra = {}
    if hasattr(mod, "extra") and not args.only:
        xtra = mod.extra(args.tier, seed, dict(prop=prop, jobs=args.jobs, replay_dir=replay_dir, root=ROOT))
        problems.extend(xtra.get("problems", []))
        violations.extend(xtra.get("violations", []))

    # 4. report
    rc = 0
    for cid, rp, detail in violations:
        log("VIOLATION property=%s replay=%s   (condition %s: %s)" % (prop, os.path.relpath(rp, ROOT), cid, detail))
        rc = 1
    for p in problems:
        log("INCONCLUSIVE %s" % p)
    if problems and rc == 0:
        rc = 2

    allres = list(results.values()) + list(witnesses.values())
    paths = sum(r.get("paths", 0) for r in allres)
    queries = sum(r.get("queries", 0) for r in allres)
    meta = getattr(mod, "META", {})
    if not samples:
        samples = [{"condition": c["id"], "params": c.get("params", {})} for c in conds[:3]]
    ev = {
        "property_id": prop,
        "tier": args.tier,
        "seed": seed,
        "level": meta.get("level", "model_checking"),
        "wall_s": round(time.time() - t_start, 1),
        "violations": len(violations),
        "assumptions": meta.get("assumptions", []),
        "coverage": {
            "states": paths,
            "transitions": queries,
            "traces_validated_against_impl": validated,
            "samples": samples,
            "evaluations": paths,
            "distinct_nontrivial": nontrivial,
            "rule": "one evaluation = one feasible execution path of the real code explored to its end by CrossHair "
                    "(a class of inputs); a condition counts as non-trivial when it was CONFIRMED over >= 2 feasible paths "
                    "that ended in >= 2 different verdict classes (e.g. valid and invalid)",
            "obligations": len(conds),
            "discharged": n_conf,
            "exhaustive": False,
            "explanation": meta.get("explanation", ""),
            "engine": "CrossHair 0.0.110 / z3 on the byte-code of /repo/jsonschema (regenerated from the working tree by import)",
            "bounds": meta.get("bounds", {}),
            "outside_bounds": meta.get("outside", []),
            "stubs": meta.get("stubs", []),
            "functions_executed_by_replayed_witnesses": sorted(functions),
            "solver_queries": queries,
            "solver_seconds": round(sum(r.get("solver_s", 0.0) for r in allres), 1),
            "cpu_seconds_symbolic": round(sum(r.get("wall_s", 0.0) for r in allres), 1),
            "witness_twins": {"run": len(witnesses), "replayed_ok": validated},
            "conditions_with_unsatisfiable_documented_precondition": n_vacuous[0],
            "known_findings_announced": known_lines,
            "inconclusive": problems[:50],
            "preflight": pre_info,
            "conditions": [
                {"id": cid, "state": results[cid]["state"], "paths": results[cid]["paths"],
                 "queries": results[cid]["queries"], "wall_s": results[cid]["wall_s"], "tags": results[cid]["tags"]}
                for cid in by_id if cid in results
            ],
        },
    }
    cov = ev["coverage"]
    if xtra:
        cov.update(xtra.get("coverage", {}))
        cov["obligations"] += xtra.get("obligations", 0)
        cov["discharged"] += xtra.get("discharged", 0)
        cov["evaluations"] += xtra.get("evaluations", 0)
        cov["distinct_nontrivial"] += xtra.get("nontrivial", 0)
        cov["traces_validated_against_impl"] += xtra.get("validated", 0)
        cov["samples"] = (xtra.get("samples", []) + cov["samples"])[:40]
        ev["violations"] = len(violations)
    if calibration:
        log("(calibration run against %s: no evidence written)" % os.environ["VERIF_REPO"])
        return rc
    if not args.only and rc == 0:
        os.makedirs(os.path.join(ROOT, "costs"), exist_ok=True)
        costs.update({cid: results[cid]["wall_s"] for cid in by_id if cid in results})
        with open(cpath, "w") as f:
            json.dump(costs, f, indent=0, sort_keys=True)
    if not args.only:
        with open(os.path.join(ROOT, "evidence", "%s.json" % prop), "w") as f:
            json.dump(ev, f, indent=1)
    log("%s: %d/%d conditions confirmed, %d violations, %d inconclusive, %d paths, %d solver queries, %d witnesses replayed, %.0fs"
        % (prop, n_conf, len(conds), len(violations), len(problems), paths, queries, validated, time.time() - t_start))
    return rc


if __name__ == "__main__":
    sys.exit(main())
